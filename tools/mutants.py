#!/venv/bin/python
"""Sensitivity experiment (DESIGN.md section 8): hand-written faults from the per-property 'Targets' lists.

Each mutant is a textual replacement applied to a scratch worktree of /repo HEAD (outside /repo and /verif, removed
afterwards); the quick checks of the listed properties run against it through PYGAMMA_REPO.  Results go to
/verif/sensitivity/results.json.  usage: tools/mutants.py [label-prefix ...] [-j N]
"""
import concurrent.futures
import json
import os
import subprocess
import sys
import time

VERIF = os.path.dirname(os.path.dirname(os.path.abspath(__file__)))
C, D, A, S, T, N, L = ("pygamma_agreement/continuum.py", "pygamma_agreement/dissimilarity.py", "pygamma_agreement/alignment.py",
                       "pygamma_agreement/sampler.py", "pygamma_agreement/cst.py", "pygamma_agreement/numba_utils.py", "pygamma_agreement/cli_apps.py")

MUTANTS = [
    # label, properties expected to catch it, file, old, new
    ("c01-cbc-cover", ["C01", "C02"], C, "[A @ x == 1]).solve(solver=cp.CBC)", "[A @ x >= 1]).solve(solver=cp.CBC)"),
    ("c01-glpk-cover", ["C01", "C08"], C, "[1 <= matmul, matmul <= 1]", "[1 <= matmul]"),
    ("c07-keep-all-empty", ["C07"], D, "disorders[:i_chosen - 1], alignments[:i_chosen - 1]", "disorders[:i_chosen], alignments[:i_chosen]"),
    ("c02-prune-at-delta", ["C02", "C07"], D, "criterium = c2n * delta_empty * nb_annotators", "criterium = c2n * delta_empty"),
    ("c02-norm-n", ["C02", "C03", "C07"], D, "        disorders /= c2n\n", "        disorders /= nb_annotators\n"),
    ("c03-norm-n", ["C03"], D, "        res /= c2n\n", "        res /= nb_annotators\n"),
    ("c03-slot-by-position", ["C03"], D, "            for annotator, unit in unitary_alignment.n_tuple:\n                annotator_i = annotators.index(annotator)",
     "            for annotator_i, (annotator, unit) in enumerate(unitary_alignment.n_tuple):"),
    ("c03-empty-empty-zero", ["C03"], D, "if unitary_alignment[i, 3] == -1 or unitary_alignment[j, 3] == -1:\n                        res[unitary_alignment_i] += delta_empty",
     "if unitary_alignment[i, 3] == -1 and unitary_alignment[j, 3] == -1:\n                        pass\n                    elif unitary_alignment[i, 3] == -1 or unitary_alignment[j, 3] == -1:\n                        res[unitary_alignment_i] += delta_empty"),
    ("c04-pos-max-duration", ["C04"], D, "                    (unit1[2] + unit2[2]))\n            return dist * dist * delta_empty", "                    (2 * max(unit1[2], unit2[2])))\n            return dist * dist * delta_empty"),
    ("c04-combined-d", ["C04"], D, "return (self.alpha * self.positional_dissim.d(unit1, unit2)\n                + self.beta * self.categorical_dissim.d(unit1, unit2))",
     "return self.alpha * (self.positional_dissim.d(unit1, unit2)\n                             + self.categorical_dissim.d(unit1, unit2))"),
    ("c04-int8-again", ["C04"], D, "matrix[np.int32(unit1[3]), np.int32(unit2[3])]", "matrix[np.uint8(unit1[3]), np.uint8(unit2[3])]"),
    ("c05-median", ["C05"], C, "return float(np.mean([align.disorder for align in self.chance_alignments]))", "return float(np.median([align.disorder for align in self.chance_alignments]))"),
    ("c05-second-batch-size", ["C05"], C, "                        for _ in range(required_samples - n_samples)\n", "                        for _ in range(required_samples)\n"),
    ("c05-ignore-ground-truth", ["C05"], C, "sampler.init_sampling(self, ground_truth_annotators)", "sampler.init_sampling(self)"),
    ("c05-confidence", ["C05"], C, "confidence = 1.96", "confidence = 1.64"),
    ("c06-lazy-sample", ["C06"], C, "                p.submit(job,\n                         *(dissimilarity, sampler.sample_from_continuum))\n                for _ in range(n_samples)",
     "                p.submit(lambda: job(dissimilarity, sampler.sample_from_continuum))\n                for _ in range(n_samples)"),
    ("c06-as-completed", ["C06"], C, "            for i, result in enumerate(result_pool):\n                chance_best_alignments.append(result.result())\n                logging.info(f\"finished computation of random sample dissimilarity {i + 1}/{n_samples}\")",
     "            from concurrent.futures import as_completed\n            for i, result in enumerate(as_completed(result_pool)):\n                chance_best_alignments.append(result.result())\n                logging.info(f\"finished computation of random sample dissimilarity {i + 1}/{n_samples}\")"),
    ("c07-extend-drops-last", ["C07"], N, "    new_array = np.empty(len(arr) + n, dtype=np.float32)\n    new_array[:len(arr)] = arr", "    new_array = np.empty(len(arr) + n, dtype=np.float32)\n    new_array[:len(arr) - 1] = arr[:len(arr) - 1]"),
    ("c07-extend-alignments-drops-last", ["C07"], N, "    new_array[:i, :] = arr", "    new_array[:i - 1, :] = arr[:i - 1, :]"),
    ("c08-soft-glpk-partition", ["C08", "C11"], C, "            cp.Problem(cp.Minimize(disorders.T @ x), [A @ x >= 1]).solve(solver=cp.GLPK_MI)", "            cp.Problem(cp.Minimize(disorders.T @ x), [A @ x == 1]).solve(solver=cp.GLPK_MI)"),
    ("c08-fallback-importerror-only", ["C08"], C, "        except (ImportError, cp.SolverError):\n            logging.warning(\"CBC solver not installed. Using GLPK.\")\n            matmul", "        except ImportError:\n            logging.warning(\"CBC solver not installed. Using GLPK.\")\n            matmul"),
    ("c09-abs-delta-squared", ["C09", "C04"], D, "            return (0 if unit1[3] == unit2[3] else 1) * delta_empty\n", "            return (0 if unit1[3] == unit2[3] else 1) * delta_empty * delta_empty\n"),
    ("c09-threshold-not-scaled", ["C09", "C02", "C07"], D, "criterium = c2n * delta_empty * nb_annotators", "criterium = c2n * nb_annotators"),
    ("c10-no-progress-guard", ["C10"], C, "            if not chosen_alignments:\n", "            if False:\n"),
    ("c10-limit-strict", ["C10"], A, "            if unitary_alignment.bounds[1] > x_limit:", "            if unitary_alignment.bounds[1] >= x_limit:"),
    ("c10-consumes-self", ["C14", "C10"], C, "        copy = self.copy()\n        unitary_alignments = []", "        copy = self\n        unitary_alignments = []"),
    ("c11-soft-partition", ["C11"], C, "            cp.Problem(cp.Minimize(disorders.T @ x), [A @ x >= 1]).solve(solver=cp.CBC)", "            cp.Problem(cp.Minimize(disorders.T @ x), [A @ x == 1]).solve(solver=cp.CBC)"),
    ("c12-weight-1-over-k", ["C12"], A, "weight_base = 1 / (nv - 1)", "weight_base = 1 / nv"),
    ("c12-alpha-dropped", ["C12"], A, "pos_dissim = dissimilarity.alpha * dissimilarity.positional_dissim.d(unit1, unit2)", "pos_dissim = dissimilarity.positional_dissim.d(unit1, unit2)"),
    ("c12-filter-or", ["C12"], A, "if category is not None and ((unit1 is None or unit1.annotation != category)\n                                                 and (unit2 is None or unit2.annotation != category)):",
     "if category is not None and ((unit1 is None or unit1.annotation != category)\n                                                 or (unit2 is None or unit2.annotation != category)):"),
    ("c12-empty-weight-1", ["C12"], A, "total_weight += dissimilarity.delta_empty\n", "total_weight += 1\n"),
    ("c13-eq-ignores-count", ["C13"], C, "        if self.num_units != other.num_units:\n            return False\n", ""),
    ("c13-merge-loses-empty-annotators", ["C13"], C, "            current_cont.add_annotator(annotator)\n        for annotator, unit in continuum:", "            pass\n        for annotator, unit in continuum:"),
    ("c13-add-mutates-before-reject", ["C13"], C, "        if segment.duration == 0.0:\n            raise ValueError(\"Tried adding segment of duration 0.0\")\n\n        if annotator not in self._annotations:\n            self._annotations[annotator] = SortedSet()\n",
     "        if annotator not in self._annotations:\n            self._annotations[annotator] = SortedSet()\n        if segment.duration == 0.0:\n            raise ValueError(\"Tried adding segment of duration 0.0\")\n"),
    ("c13-lt-nonstrict", ["C13"], C, "                return other.annotation is not None\n", "                return True\n"),
    ("c14-getitem-live", ["C14"], C, "                return deepcopy(self._annotations[keys])", "                return self._annotations[keys]"),
    ("c14-copy-shallow-categories", ["C14", "C13"], C, "        continuum._categories = deepcopy(self._categories)", "        continuum._categories = self._categories"),
    ("c15-uniform-categories", ["C15"], S, "category = np.random.choice(self._categories, p=self._categories_weight)", "category = np.random.choice(self._categories)"),
    ("c15-gap-from-duration", ["C15"], S, "gap = np.random.normal(self._avg_gap, self._std_gap)", "gap = np.random.normal(self._avg_unit_duration, self._std_unit_duration)"),
    ("c15-all-annotators", ["C15", "C05"], S, "        for annotator in self._ground_truth_annotators:\n            new_continnum.add_annotator(annotator)", "        for annotator in self._reference_continuum.annotators:\n            new_continnum.add_annotator(annotator)"),
    ("c15-no-precision-redraw", ["C15"], S, "                while end - start < pyannote.core.segment.SEGMENT_PRECISION:", "                while False:"),
    ("c16-rewrite-nonoverlapping", ["C16"], S, "            if segment.end <= pivot - dist or segment.start >= pivot + dist:\n", "            if False:\n"),
    ("c16-wrap-on-end", ["C16"], S, "                    if unit.segment.start + pivot > bound_sup:", "                    if unit.segment.end + pivot > bound_sup:"),
    ("c16-any-annotator", ["C16", "C05"], S, "                rnd_annotator = np.random.choice(annotators)", "                rnd_annotator = np.random.choice(continuum.annotators)"),
    ("c16-full-length-distance", ["C16"], S, "min_dist_between_pivots = continuum.avg_length_unit / 2", "min_dist_between_pivots = continuum.avg_length_unit / 4"),
    ("c17-soft-exactly-one", ["C17"], A, "                if factor == 0:", "                if factor != 1:"),
    ("c17-missing-skipped-when-repeat", ["C17"], A, "        missing_tuples = continuum_tuples - set(alignment_tuples)\n        if missing_tuples:", "        missing_tuples = continuum_tuples - set(alignment_tuples)\n        if missing_tuples and len(alignment_tuples) == len(set(alignment_tuples)):"),
    ("c18-empty-marks-kept", ["C18"], C, "                if not interval.mark:\n                    continue\n", ""),
    ("c18-elan-filter-inverted", ["C18"], C, "        for tier_name in eaf.get_tier_names():\n            if selected_tiers is not None and tier_name not in selected_tiers:", "        for tier_name in eaf.get_tier_names():\n            if selected_tiers is not None and tier_name in selected_tiers:"),
    ("c18-newline-removed", ["C18"], C, "        with open(path, newline='') as csv_file:", "        with open(path) as csv_file:"),
    ("c19-no-security", ["C19"], T, "            if len(continuum._annotations[annotator]) == 0:\n                continuum.add(annotator, security.segment, security.annotation)", "            pass"),
    ("c19-split-drops-piece", ["C19"], T, "                    continuum.add(annotator, right, to_split.annotation)\n                    continuum.add(annotator, left, to_split.annotation)", "                    continuum.add(annotator, right, to_split.annotation)"),
    ("c19-shift-both-ends-together", ["C19"], T, "                while start_seg >= end_seg:", "                while start_seg > end_seg:"),
    ("c20-alpha-not-forwarded", ["C20"], L, "dissim = CombinedCategoricalDissimilarity(alpha=args.alpha,", "dissim = CombinedCategoricalDissimilarity(alpha=1.0,"),
    ("c20-seed-per-file", ["C20"], L, "    for file_path in input_files:\n        start = time.time()", "    for file_path in input_files:\n        if args.seed is not None:\n            np.random.seed(args.seed)\n        start = time.time()"),
    ("c20-numerical-unmapped", ["C20"], L, "elif args.cat_dissim == \"numerical\":", "elif args.cat_dissim == \"ordinal\":"),
]


def run_one(m):
    label, props, rel, old, new = m
    wt = f"/tmp/mutant_{label}.wt"
    out = f"/tmp/mutant_{label}"
    subprocess.run(f"rm -rf {wt} {out}; mkdir -p {out}; git -C /repo worktree prune; git -C /repo worktree add --detach {wt} HEAD", shell=True,
                   stdout=subprocess.DEVNULL, stderr=subprocess.DEVNULL)
    res = {"label": label, "file": rel, "results": {}}
    try:
        path = os.path.join(wt, rel)
        src = open(path).read()
        if src.count(old) < 1:
            res["error"] = "pattern not found"
            return res
        open(path, "w").write(src.replace(old, new, 1))
        for pid in props:
            t0 = time.time()
            env = dict(os.environ, PYGAMMA_REPO=wt, VERIF_OUT_DIR=out, VERIF_PROCS=os.environ.get("MUT_PROCS", "6"))
            p = subprocess.run(["/venv/bin/python", "pbt/run.py", pid, "--tier", "quick"], cwd=VERIF, env=env, capture_output=True, text=True, timeout=2400)
            sigs = [l.strip()[:260] for l in p.stdout.splitlines() if l.startswith("  violation")]
            res["results"][pid] = {"rc": p.returncode, "wall_s": round(time.time() - t0, 1), "violations": sigs[:3],
                                   "harness": [l[:200] for l in p.stdout.splitlines() if l.startswith("HARNESS")][:2]}
    except Exception as e:  # noqa
        res["error"] = repr(e)
    finally:
        subprocess.run(f"git -C /repo worktree remove --force {wt}; rm -rf {out}", shell=True, stdout=subprocess.DEVNULL, stderr=subprocess.DEVNULL)
    return res


def main():
    args = [a for a in sys.argv[1:] if not a.startswith("-j")]
    jobs = int(next((a[2:] for a in sys.argv[1:] if a.startswith("-j")), "3"))
    todo = [m for m in MUTANTS if not args or any(m[0].startswith(a) for a in args)]
    os.makedirs(os.path.join(VERIF, "sensitivity"), exist_ok=True)
    path = os.path.join(VERIF, "sensitivity", "results.json")
    allres = json.load(open(path)) if os.path.exists(path) else {}
    with concurrent.futures.ThreadPoolExecutor(jobs) as ex:
        for r in ex.map(run_one, todo):
            allres[r["label"]] = r
            caught = {k: v["rc"] for k, v in r["results"].items()}
            print(r["label"], r.get("error", ""), caught, flush=True)
            json.dump(allres, open(path, "w"), indent=1, sort_keys=True)


if __name__ == "__main__":
    main()
