#!/venv/bin/python
"""Runs the registered quick check(s) against every kept seeded change the way the brief prescribes:
    git -C /repo apply <patch>;  run the check;  git -C /repo checkout -- .
(outputs of these runs go to a scratch VERIF_OUT_DIR so that /verif/evidence keeps describing the unchanged tree).
Updates seeded/<id>/meta.json (fields: needs_to_manifest, official_run, caught_by) and prints a table.
usage: tools/seed_confirm.py [id ...]"""
import json
import os
import shutil
import subprocess
import sys
import time

VERIF = os.path.dirname(os.path.dirname(os.path.abspath(__file__)))

NEEDS = {
    "C01A": "two chosen unitary alignments with identical (min start, max end): e.g. two differently labelled units on the same segment for each annotator",
    "C01B": "GLPK back-end in use (cylp not importable / CBC SolverError) and one annotator with two units close to a single unit of another",
    "C02A": "n*C(n,2)*delta_empty not an integer (e.g. 2 annotators, delta_empty 0.75) and an optimal unitary alignment costing between the floored and the true cut",
    "C03A": ">= 3 annotators and a unitary alignment with two or more empty slots, recomputed through compute_disorder",
    "C03B": "unlabelled units and a recomputation through compute_disorder (the -1 marker of the empty unit collides)",
    "C04A": "ordinal/numerical labels supplied in an order that is a 3-cycle away from alphabetical order",
    "C04B": "a sequence: build a combined dissimilarity with default components, build another with a different delta_empty, use the first one's d() again",
    "C05A": "a history with one sampler object: an earlier compute_gamma (or init_sampling) on the same continuum, then a call without ground truth / after an in-place edit",
    "C05B": "delta_empty of the order of 1e-9 (np.isclose absolute tolerance)",
    "C06A": "precision_level set, first batch judged insufficient, and a thread schedule that does not start jobs in submission order",
    "C06B": "ground_truth_annotators given as an unordered set, the shuffle sampler, and processes with different PYTHONHASHSEED",
    "C07A": "a candidate whose summed disorder lands EXACTLY on the cut n*delta_empty (float tie)",
    "C07B": "a sequence on one continuum object: compute, edit in place keeping every annotator's unit count, compute again with the same dissimilarity",
    "C08A": "GLPK fallback and an input where one unit has two close partners in another annotator",
    "C08B": "CBC raising cvxpy.SolverError (fault) on the SOFT alignment path",
    "C09A": "delta_empty > 1 and an optimum containing a unitary alignment costing between C(n,2)*n and C(n,2)*n*delta_empty",
    "C09B": "a continuum mixing unlabelled and labelled units, a table-less categorical dissimilarity, a renaming that changes which category sorts first",
    "C10A": "an annotator without any unit (>= 3 annotators: silently wrong; 2 annotators: assertion)",
    "C10B": "small window, a long unit ending exactly at the continuum's end with later-starting units of the same annotator nested in it",
    "C11A": ">= 3 annotators and a unit that must be repeated more often than any annotator has units",
    "C11B": "GLPK fallback on the soft path and any split/merge situation",
    "C12A": "delta_empty != 1 and an alignment mixing a unit/empty pair with a real pair",
    "C12B": "a sequence on one Alignment object: gamma_k_disorder, then again with another combined dissimilarity or after an in-place edit",
    "C13A": "an explicit reset_bounds() on a continuum whose latest-ending unit is not the last unit (in start order) of its annotator",
    "C13B": "a history: add an outlying unit and remove it (or reset_bounds on one side only), then compare with an equal continuum",
    "C14A": "a category the source does not have introduced after copy()/merge()/+ on the copy (or vice versa)",
    "C14B": "merge(in_place=False) or + with an operand that has no annotators at all, then an edit of the result",
    "C15A": "a sequence: init sampler on a reference, edit the reference in place, re-init the same sampler on it",
    "C15B": "mean unit count small compared with its deviation (negative draws)",
    "C16A": "ground truth with unit-less annotators, a draw picking only those (retry), and a fairly short continuum",
    "C16B": "start + pivot exactly equal to the upper bound (integer pivots, whole-number starts) or a non-zero lower bound",
    "C17A": "an alignment in which a unit is re-slotted under another annotator (distinct count unchanged)",
    "C17B": "identical units in two annotators and a soft alignment omitting one of the twins",
    "C18A": "an annotator or label whose first character is a space and that needs no quoting",
    "C18B": "an EMPTY tier selection (selected_tiers=[])",
    "C19A": "one tool object: shuffle with shift at m > 0, reassign magnitude, shuffle again",
    "C19B": "split applied to a corpus whose size differs from the reference's (after false negatives / false positives)",
    "C20A": "one run with >= 2 files, -d numerical, a later file whose categories are a strict subset of an earlier file's with another numeric range",
    "C20B": "exactly --seed 0",
    # ---- second round (sub-agents were told what the first round had tried)
    "C01C": "a history on one continuum: best alignment, remove() with no add after it, best alignment again with the same dissimilarity (stale remembered candidates)",
    "C01D": "a unit labelled with the empty string '' (not None)",
    "C02C": "a history: best alignment, remove(), the same call again with the same dissimilarity instance (stale memoised alignment)",
    "C02D": "GLPK fallback and a unit with two partners from one other annotator, both closer than delta_empty",
    "C03C": "the soft path, a soft optimum that re-uses a unit, and a recomputation through compute_disorder",
    "C03D": "a dissimilarity with its own category table whose labels are not all present in the continuum (also: every fast-alignment window)",
    "C04C": "two ordinal dissimilarities in one process over the same label set and delta_empty but other positions/order",
    "C04D": "the same table-less dissimilarity object and the same continuum object: a computation, an add() of a new category that does not sort last, a second computation",
    "C05C": "soft or fast mode, a precision level, and N_required > n_samples (second batch)",
    "C05D": "identical, perfectly regular annotators with a single category and the statistical sampler (all chance disorders 0)",
    "C06C": "one explicit sampler object passed to compute_gamma twice with the seed re-fixed",
    "C06D": "fast=True on a continuum large enough for a finite window, and a schedule in which the best-alignment job starts late",
    "C07C": "the same dissimilarity object used on two continua with different category sets",
    "C07D": ">= 3 annotators and a candidate with one pair between 7 and 9 delta_empty (n=3) whose other pairs are cheap",
    "C08C": "cylp not importable and delta_empty != 1",
    "C08D": "GLPK fallback, >= 3 annotators, overlapping units competing for the same partners (fractional LP optimum)",
    "C09C": ">= 3 annotators, an optimal unitary alignment containing two far units, held by the alphabetically first annotators in one naming only",
    "C09D": ">= 3 annotators with a fractional LP relaxation and a near-optimal alternative within 1 %",
    "C10C": "the fallback path of the fast alignment (no unitary alignment of a window ends before the limit)",
    "C10D": ">= 3 annotators, one annotator still has units after the others ran out, window not covering everything",
    "C11C": "delta_empty != 1 and two get_best_soft_alignment calls with the same dissimilarity object on the same continuum content",
    "C11D": ">= 2 zero-disorder candidates sharing units (positional-only with several labels on one segment, or categorical-only)",
    "C12C": "alpha * delta_empty < 1 and co-aligned real units whose segments do not overlap",
    "C12D": "a unit labelled '' and a gamma-k request for ''",
    "C13C": "copy()/merge()/+ then a NEW label added to one of the two objects, categories of the other re-read exactly",
    "C13D": "a rejected zero-length add for an annotator not yet present, then a re-check of the annotators",
    "C14C": "corpus_shuffle(include_ref=True) then a change of the reference annotator's units in the returned corpus",
    "C14D": "merging in an operand that has an annotator WITHOUT units unknown to the receiver, then adding units for it",
    "C15C": "one sampler initialised with weights, then init_sampling_custom without weights",
    "C15D": "a strict ground-truth subset on a reference whose annotators have unequal unit counts",
    "C16C": "one sampler object initialised on a continuum with short units, then on one with longer units",
    "C16D": "a strict ground-truth subset whose units are shorter on average than the whole reference's",
    "C17C": "a history: strict check, remove() on the same continuum object, strict check again",
    "C17D": "a continuum with zero units passed as the explicit argument of check()",
    "C18C": "a zero-length CSV row whose annotator or label appears in no valid row",
    "C18D": "a history: read a TextGrid/ELAN path, rewrite the file at that path, read it again",
    "C19C": "a shift (or false positives) first, then false negatives emptying an annotator",
    "C19D": "reference units barely longer than the segment precision and split=True",
    "C20C": "-b 0 with -d levenshtein/numerical and -c or -k",
    "C20D": ">= 2 different input files with -k and -o or -j",
    # ---- third round (told about both earlier rounds; asked for arithmetic / boundary / option-interaction / timing faults, no more stale caches)
    "C02E": "the earlier-named annotator owns a far short unit followed by a within-reach long unit (or alpha = 0 with a later unit of the same category)",
    "C02F": "0 < delta_empty <= 1.19e-7 (float32 eps)",
    "C03E": "fast path and a window whose best alignment has every unitary alignment ending past the limit (fallback)",
    "C03F": "soft path with delta_empty != 1 (costs array divided in place)",
    "C05E": "n_samples == 1 together with a precision level",
    "C05F": "the named level 'low' and a chance CV large enough for a second batch (table says 0.1, the docstring 5 %: both are accepted by the check, see section 10)",
    "C06E": "shuffle sampler on a crowded continuum (annotators x mean unit length >= length: fallback pivot) and a repetition in one process",
    "C06F": "gamma-cat / gamma-k compared across worker counts with n_samples not a multiple of ceil(n_samples / workers)",
    "C07E": "number of combinations under the cut, all-empty included, an exact multiple of 10000",
    "C07F": ">= 3 annotators of which >= 2 have no unit",
    "C10E": "a window covering the whole continuum on a continuum where windowing is harmful (partner nested behind a very long unit)",
    "C13E": "an annotator without units on the receiver, then copy() / out-of-place merge / +",
    "C13F": "removing a unit whose label is None",
    "C14E": "a fully unlabelled continuum given to the statistical sampler",
    "C14F": "an exception in the middle of a fast alignment (a category missing from the dissimilarity's table appearing late)",
    "C15E": "a reference in which an annotator has a unit nested inside an earlier, longer unit",
    "C15F": "a reference with an annotator that has no unit",
    "C16E": "integer pivots and a pivot landing exactly on the end of an available segment (whole-number upper bound), then a later pivot nearby",
    "C16F": "two interleaved draws from one sampler object (two threads sharing it)",
    "C19E": "category names of different lengths, false negatives + category shuffle at high magnitude",
    "C19F": "a one-unit reference, false_pos=True and magnitude exactly 1.0",
    "C20E": ">= 2 different files in one run, the later one finishing parsing first (thread timing)",
    "C20F": "-k without -c together with -o or -j",
    "C01E": "a unit whose duration overflows single precision (about 3.4e38): NaN candidate costs",
    "C04E": "Levenshtein labels where the shorter one is the longer one with a block of a repetition deleted ('ab'/'aab', '10'/'100')",
    "C04F": "unlabelled units, a table-less dissimilarity and a recomputation through compute_disorder",
    "C08E": "cylp present but unloadable: `import cylp` raises a plain ImportError (not ModuleNotFoundError)",
    "C09E": "a short unit followed by a longer one in one annotator, both disjoint from a unit of the alphabetically later annotator, the far pair being optimal",
    "C09F": ">= 4 annotators, one of them without units and exactly second in alphabetical order",
    "C11E": ">= 3 annotators and a delta_empty such as 0.85 / 1.45 / 2.9 for which float32(C(n,2)*delta)/C(n,2) exceeds float32(delta)",
    "C11F": ">= 3 annotators, one without units, and two others whose units match",
    "C12E": "more chance samples than twice the worker threads, not a multiple of the batch size",
    "C12F": "beta != 1",
    "C17E": "an alignment with zero unitary alignments",
    "C17F": "check_validity=True together with a non-None disorder argument",
    "C18E": "a CSV file in which an annotator's rows come in two or more non-contiguous blocks",
    "C18F": "a carriage return inside an annotator or label",
    # ---- fourth (short) round: one variant each for ten properties
    "C02G": ">= 4 annotators and an optimal unitary alignment holding two short distant units whose pair costs between 7 and 9 delta_empty, covered by long units of the others",
    "C03G": "a positional component, a recomputation through compute_disorder, and unit boundaries that are large compared with the durations and not float32-exact",
    "C05G": "the shuffle sampler with a ground truth that is a strict subset and not the first k annotators in sorted order",
    "C07G": "a unit with, to its right, a far unit over the cut followed in sorted order by a much longer (or category-matching) unit",
    "C10G": "an annotator whose leftmost remaining unit is long and reaches past the window limit while a later-starting short unit of it is retained",
    "C12G": "an alignment with exactly one category containing both a real/real pair and an unaligned unit",
    "C13G": "two continua with the same annotators and the same flattened unit sequence but different ownership of the units",
    "C15G": "unit durations of the order of the 1e-6 segment precision",
    "C16G": ">= 4 ground-truth annotators (the exclusion zone of the third or a later pivot is skipped)",
    "C19G": "false negatives with 0 < magnitude < 1 on a small reference (an annotator loses every unit)",
    # ---- fifth round (H)
    "C01H": "a continuum mixing labelled and unlabelled units with a table-less dissimilarity (the unlabelled index is only reserved when there is no category at all)",
    "C02H": "exactly 3 annotators and an optimal 3-unit unitary alignment holding one couple costing between 4.5 and 5 delta_empty, bridged by a long unit of the third annotator",
    "C03H": ">= 3 annotators, a unitary alignment with two or more empty slots, recomputed through compute_disorder (empty/empty couples double-counted)",
    "C04H": "ordinal positions that do not ascend from the first to the last supplied label / numerical labels whose first and last (alphabetical) entries are not min and max",
    "C05H": "soft (or fast) mode, a precision level, and a first batch whose variation demands a second batch: the second batch is aligned in exact mode",
    "C06H": "ground_truth_annotators given as an unordered set, and processes with different PYTHONHASHSEED",
    "C07H": "a non-integer cut n*C(n,2)*delta_empty (e.g. 3 annotators, delta_empty 0.5) and a candidate costing between the floored and the true cut",
    "C08H": "GLPK fallback on the best-alignment path and a unit with two close partners in another annotator (cover instead of partition)",
    "C09H": "unlabelled units mixed with labelled ones, table-less categorical component, and a renaming that changes which label sorts last",
    "C10H": "a window whose best alignment has no unitary alignment ending before the limit (fallback) and a non-zero disorder of the fallback unitary alignment",
    "C11H": "GLPK fallback on the soft path and an input where re-using a unit is strictly cheaper than any partition",
    "C12H": "one Alignment object asked twice for the same category under two different combined dissimilarities (result memoised per category only)",
    "C13H": "an explicit reset_bounds() on a continuum whose latest-ending unit is not the last unit (in start order) of its annotator",
    "C15H": "a duration law with microsecond-scale durations (a drawn duration below the 1e-6 segment precision is clamped instead of redrawn)",
    "C16H": "int pivots and a continuum whose lower bound or half average unit length is fractional (lower end of an allowed range floored instead of ceiled)",
    "C17H": "two units of one annotator with the same label whose bounds agree to 6 significant digits (large timestamps / near-coincident bounds)",
    "C18H": "a label or annotator containing a carriage return (CSV read without newline='')",
    "C19H": "split on units so short that a cut lands within the 1e-6 segment precision of a bound (the popped unit is dropped instead of being put back)",
    "C20H": "one run with >= 2 files, -d numerical, a later file whose categories are a subset of an earlier file's with a smaller numeric range",
}
EXTRA_CHECKS = {"C09B": ["C04", "C02"], "C04B": ["C14"], "C10A": ["C01"], "C14B": ["C13"], "C01B": ["C08"], "C08A": ["C01"],
                "C04D": ["C02", "C07"], "C07C": ["C02"], "C09C": ["C07"], "C09D": ["C02"], "C14D": ["C13"], "C13C": ["C14"], "C18C": ["C13"], "C09E": ["C07", "C02"], "C03G": ["C04"], "C02G": ["C07"]}


def sh(cmd):
    return subprocess.run(cmd, shell=True, capture_output=True, text=True)


def main():
    only = [a for a in sys.argv[1:] if not a.startswith("--")]
    rows = []
    for sid in sorted(os.listdir(os.path.join(VERIF, "seeded"))):
        d = os.path.join(VERIF, "seeded", sid)
        if only and sid not in only:
            continue
        patch = os.path.join(d, "patch.diff")
        meta = json.load(open(os.path.join(d, "meta.json")))
        if sh("git -C /repo status --porcelain --untracked-files=no").stdout.strip():
            print("refusing: /repo has uncommitted changes")
            return 2
        if sh(f"git -C /repo apply --check {patch}").returncode != 0:
            meta["official_run"] = {"error": "patch does not apply to /repo HEAD"}
            json.dump(meta, open(os.path.join(d, "meta.json"), "w"), indent=1)
            rows.append((sid, "PATCH DOES NOT APPLY", ""))
            continue
        if "--missing" in sys.argv and meta.get("official_run", {}).get("results"):
            continue
        props = [meta["breaks_property"]] + EXTRA_CHECKS.get(sid, [])
        out = f"/tmp/confirm_{sid}"
        shutil.rmtree(out, ignore_errors=True)
        results = {}
        try:
            sh(f"git -C /repo apply {patch}")
            for p in props:
                t0 = time.time()
                env = dict(os.environ, VERIF_OUT_DIR=out)
                r = subprocess.run(["/venv/bin/python", "pbt/run.py", p, "--tier", "quick"], cwd=VERIF, env=env, capture_output=True, text=True, timeout=3000)
                results[p] = {"cmd": f"git -C /repo apply seeded/{sid}/patch.diff; /venv/bin/python pbt/run.py {p} --tier quick; git -C /repo checkout -- .",
                              "rc": r.returncode, "wall_s": round(time.time() - t0, 1),
                              "violation_lines": sum(1 for l in r.stdout.splitlines() if l.startswith("VIOLATION")),
                              "violations": [l.strip()[:300] for l in r.stdout.splitlines() if l.startswith("  violation")][:3]}
        finally:
            sh("git -C /repo checkout -- .")
            shutil.rmtree(out, ignore_errors=True)
        meta["needs_to_manifest"] = NEEDS.get(sid, "")
        meta["official_run"] = {"repo_head": sh("git -C /repo rev-parse --short HEAD").stdout.strip(), "results": results}
        meta["caught_by"] = sorted(p for p, r in results.items() if r["rc"] == 1)
        json.dump(meta, open(os.path.join(d, "meta.json"), "w"), indent=1)
        rows.append((sid, ",".join(meta["caught_by"]) or "MISSED", {p: r["rc"] for p, r in results.items()}))
        print(rows[-1], flush=True)
    print(sh("git -C /repo status --porcelain --untracked-files=no").stdout or "/repo clean")
    return 0


if __name__ == "__main__":
    sys.exit(main())
