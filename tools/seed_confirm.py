#!/venv/bin/python
"""Runs the registered quick check(s) against every kept seeded change the way the brief prescribes:
    git -C /repo apply <patch>;  run the check;  git -C /repo checkout -- .
(outputs of these runs go to a scratch VERIF_OUT_DIR so that /verif/evidence keeps describing the unchanged tree).
Updates seeded/<id>/meta.json (fields: needs_to_manifest, official_run, caught_by) and prints a table.
usage: tools/seed_confirm.py [id ...]"""
import json
import os
import shutil
import subprocess
import sys
import time

VERIF = os.path.dirname(os.path.dirname(os.path.abspath(__file__)))

NEEDS = {
    "C01A": "two chosen unitary alignments with identical (min start, max end): e.g. two differently labelled units on the same segment for each annotator",
    "C01B": "GLPK back-end in use (cylp not importable / CBC SolverError) and one annotator with two units close to a single unit of another",
    "C02A": "n*C(n,2)*delta_empty not an integer (e.g. 2 annotators, delta_empty 0.75) and an optimal unitary alignment costing between the floored and the true cut",
    "C03A": ">= 3 annotators and a unitary alignment with two or more empty slots, recomputed through compute_disorder",
    "C03B": "unlabelled units and a recomputation through compute_disorder (the -1 marker of the empty unit collides)",
    "C04A": "ordinal/numerical labels supplied in an order that is a 3-cycle away from alphabetical order",
    "C04B": "a sequence: build a combined dissimilarity with default components, build another with a different delta_empty, use the first one's d() again",
    "C05A": "a history with one sampler object: an earlier compute_gamma (or init_sampling) on the same continuum, then a call without ground truth / after an in-place edit",
    "C05B": "delta_empty of the order of 1e-9 (np.isclose absolute tolerance)",
    "C06A": "precision_level set, first batch judged insufficient, and a thread schedule that does not start jobs in submission order",
    "C06B": "ground_truth_annotators given as an unordered set, the shuffle sampler, and processes with different PYTHONHASHSEED",
    "C07A": "a candidate whose summed disorder lands EXACTLY on the cut n*delta_empty (float tie)",
    "C07B": "a sequence on one continuum object: compute, edit in place keeping every annotator's unit count, compute again with the same dissimilarity",
    "C08A": "GLPK fallback and an input where one unit has two close partners in another annotator",
    "C08B": "CBC raising cvxpy.SolverError (fault) on the SOFT alignment path",
    "C09A": "delta_empty > 1 and an optimum containing a unitary alignment costing between C(n,2)*n and C(n,2)*n*delta_empty",
    "C09B": "a continuum mixing unlabelled and labelled units, a table-less categorical dissimilarity, a renaming that changes which category sorts first",
    "C10A": "an annotator without any unit (>= 3 annotators: silently wrong; 2 annotators: assertion)",
    "C10B": "small window, a long unit ending exactly at the continuum's end with later-starting units of the same annotator nested in it",
    "C11A": ">= 3 annotators and a unit that must be repeated more often than any annotator has units",
    "C11B": "GLPK fallback on the soft path and any split/merge situation",
    "C12A": "delta_empty != 1 and an alignment mixing a unit/empty pair with a real pair",
    "C12B": "a sequence on one Alignment object: gamma_k_disorder, then again with another combined dissimilarity or after an in-place edit",
    "C13A": "an explicit reset_bounds() on a continuum whose latest-ending unit is not the last unit (in start order) of its annotator",
    "C13B": "a history: add an outlying unit and remove it (or reset_bounds on one side only), then compare with an equal continuum",
    "C14A": "a category the source does not have introduced after copy()/merge()/+ on the copy (or vice versa)",
    "C14B": "merge(in_place=False) or + with an operand that has no annotators at all, then an edit of the result",
    "C15A": "a sequence: init sampler on a reference, edit the reference in place, re-init the same sampler on it",
    "C15B": "mean unit count small compared with its deviation (negative draws)",
    "C16A": "ground truth with unit-less annotators, a draw picking only those (retry), and a fairly short continuum",
    "C16B": "start + pivot exactly equal to the upper bound (integer pivots, whole-number starts) or a non-zero lower bound",
    "C17A": "an alignment in which a unit is re-slotted under another annotator (distinct count unchanged)",
    "C17B": "identical units in two annotators and a soft alignment omitting one of the twins",
    "C18A": "an annotator or label whose first character is a space and that needs no quoting",
    "C18B": "an EMPTY tier selection (selected_tiers=[])",
    "C19A": "one tool object: shuffle with shift at m > 0, reassign magnitude, shuffle again",
    "C19B": "split applied to a corpus whose size differs from the reference's (after false negatives / false positives)",
    "C20A": "one run with >= 2 files, -d numerical, a later file whose categories are a strict subset of an earlier file's with another numeric range",
    "C20B": "exactly --seed 0",
}
EXTRA_CHECKS = {"C09B": ["C04", "C02"], "C04B": ["C14"], "C10A": ["C01"], "C14B": ["C13"], "C01B": ["C08"], "C08A": ["C01"]}


def sh(cmd):
    return subprocess.run(cmd, shell=True, capture_output=True, text=True)


def main():
    only = sys.argv[1:]
    rows = []
    for sid in sorted(os.listdir(os.path.join(VERIF, "seeded"))):
        d = os.path.join(VERIF, "seeded", sid)
        if only and sid not in only:
            continue
        patch = os.path.join(d, "patch.diff")
        meta = json.load(open(os.path.join(d, "meta.json")))
        if sh("git -C /repo status --porcelain --untracked-files=no").stdout.strip():
            print("refusing: /repo has uncommitted changes")
            return 2
        if sh(f"git -C /repo apply --check {patch}").returncode != 0:
            meta["official_run"] = {"error": "patch does not apply to /repo HEAD"}
            json.dump(meta, open(os.path.join(d, "meta.json"), "w"), indent=1)
            rows.append((sid, "PATCH DOES NOT APPLY", ""))
            continue
        props = [meta["breaks_property"]] + EXTRA_CHECKS.get(sid, [])
        out = f"/tmp/confirm_{sid}"
        shutil.rmtree(out, ignore_errors=True)
        results = {}
        try:
            sh(f"git -C /repo apply {patch}")
            for p in props:
                t0 = time.time()
                env = dict(os.environ, VERIF_OUT_DIR=out)
                r = subprocess.run(["/venv/bin/python", "pbt/run.py", p, "--tier", "quick"], cwd=VERIF, env=env, capture_output=True, text=True, timeout=3000)
                results[p] = {"cmd": f"git -C /repo apply seeded/{sid}/patch.diff; /venv/bin/python pbt/run.py {p} --tier quick; git -C /repo checkout -- .",
                              "rc": r.returncode, "wall_s": round(time.time() - t0, 1),
                              "violation_lines": sum(1 for l in r.stdout.splitlines() if l.startswith("VIOLATION")),
                              "violations": [l.strip()[:300] for l in r.stdout.splitlines() if l.startswith("  violation")][:3]}
        finally:
            sh("git -C /repo checkout -- .")
            shutil.rmtree(out, ignore_errors=True)
        meta["needs_to_manifest"] = NEEDS.get(sid, "")
        meta["official_run"] = {"repo_head": sh("git -C /repo rev-parse --short HEAD").stdout.strip(), "results": results}
        meta["caught_by"] = sorted(p for p, r in results.items() if r["rc"] == 1)
        json.dump(meta, open(os.path.join(d, "meta.json"), "w"), indent=1)
        rows.append((sid, ",".join(meta["caught_by"]) or "MISSED", {p: r["rc"] for p, r in results.items()}))
        print(rows[-1], flush=True)
    print(sh("git -C /repo status --porcelain --untracked-files=no").stdout or "/repo clean")
    return 0


if __name__ == "__main__":
    sys.exit(main())
