#!/bin/bash
# usage: tools/try_patch.sh <patch.diff> <label> <ID> [<ID> ...]
# Sensitivity experiment: applies the patch to a scratch worktree of /repo HEAD (outside /repo and /verif), runs the
# quick checks of the given properties against it (PYGAMMA_REPO), writes outputs under /tmp/try_<label>/, removes the worktree.
patch=$1; label=$2; shift 2
wt=/tmp/try_$label.wt; out=/tmp/try_$label
rm -rf $wt $out; mkdir -p $out; git -C /repo worktree prune
git -C /repo worktree add --detach $wt HEAD >/dev/null 2>&1 || { echo "worktree failed"; exit 2; }
if ! git -C $wt apply "$patch"; then echo "PATCH DOES NOT APPLY"; git -C /repo worktree remove --force $wt; exit 2; fi
cd /verif
for id in "$@"; do
  PYGAMMA_REPO=$wt VERIF_OUT_DIR=$out timeout 1500 /venv/bin/python pbt/run.py $id --tier ${TIER:-quick} > $out/$id.log 2>&1
  rc=$?
  echo "== $label $id rc=$rc $(grep -c '^VIOLATION' $out/$id.log) violation line(s)"
  grep -E "^  violation|^HARNESS" $out/$id.log | cut -c1-300 | head -4
done
[ -n "$KEEP" ] || git -C /repo worktree remove --force $wt
