#!/venv/bin/python
"""Confirms a seeded change produced by an independent sub-agent and runs the checks against it.

usage: tools/seed_eval.py <PROPERTY> <variant letter> [extra property ids to run ...] [--no-suite]
Reads /tmp/mut/<PROPERTY>/out/variant<X>.diff and demo<X>.py.  In a scratch worktree of /repo HEAD (outside /repo and
/verif, removed afterwards):
  1. demo on the clean tree must exit 0;  2. the diff must apply;  3. demo on the changed tree must exit non-zero;
  4. the repository's own suite must still give 38 passed (the 3 always-failing CLI tests aside);
  5. the quick check(s) are run against the changed tree (PYGAMMA_REPO) and their verdict recorded.
Writes /verif/seeded/<PROPERTY><X>/{patch.diff, demo.py, notes.md, meta.json}.
"""
import json
import os
import re
import shutil
import subprocess
import sys
import time

VERIF = os.path.dirname(os.path.dirname(os.path.abspath(__file__)))


def sh(cmd, **kw):
    return subprocess.run(cmd, shell=True, capture_output=True, text=True, **kw)


def main():
    args = [a for a in sys.argv[1:] if not a.startswith("--")]
    opts = dict(a[2:].split("=", 1) for a in sys.argv[1:] if a.startswith("--") and "=" in a)
    pid, var = args[0], args[1]
    props = [pid] + args[2:]
    src = f"{opts.get('src', '/tmp/mut')}/{pid}/out"          # --src=/tmp/mut2 for the second round
    diff, demo = f"{src}/variant{var}.diff", f"{src}/demo{var}.py"
    sid = f"{pid}{opts.get('as', var)}"                        # --as=C stores round-2 variant A as <PID>C
    wt = f"/tmp/seed_{sid}.wt"
    out = f"/tmp/seed_{sid}"
    sh(f"rm -rf {wt} {out}; mkdir -p {out}; git -C /repo worktree prune; git -C /repo worktree add --detach {wt} HEAD")
    meta = {"id": sid, "breaks_property": pid, "source": "independent sub-agent given only the property text and a scratch worktree",
            "repo_head": sh("git -C /repo rev-parse --short HEAD").stdout.strip(), "confirmed": {}, "checks": {}}
    try:
        env = dict(os.environ, PYTHONPATH=wt)
        # demos may locate the package relative to their own path (<worktree>/out/demo.py): run a copy placed there
        sh(f"mkdir -p {wt}/out && cp {demo} {wt}/out/")
        demo_src, demo = demo, f"{wt}/out/{os.path.basename(demo)}"
        r = sh(f"cd {wt} && timeout 600 /venv/bin/python {demo}", env=env)
        meta["confirmed"]["demo_on_clean_rc"] = r.returncode
        r = sh(f"git -C {wt} apply {diff}")
        if r.returncode != 0:
            # the sub-agent worked on an older HEAD (later fix: commits touched neighbouring lines): 3-way merge the
            # change onto the current HEAD and keep the re-based diff
            r = sh(f"git -C {wt} apply --3way {diff} && git -C {wt} reset -q")
            if r.returncode == 0:
                rebased = sh(f"git -C {wt} diff -- pygamma_agreement").stdout
                diff = f"{out}/rebased.diff"
                open(diff, "w").write(rebased)
                meta["confirmed"]["rebased_onto_head"] = True
        meta["confirmed"]["patch_applies"] = r.returncode == 0
        if r.returncode != 0:
            meta["confirmed"]["apply_error"] = r.stderr[-500:]
            print(json.dumps(meta, indent=1))
            return 1
        r = sh(f"cd {wt} && timeout 600 /venv/bin/python {demo}", env=env)
        meta["confirmed"]["demo_on_changed_rc"] = r.returncode
        meta["confirmed"]["demo_output_tail"] = (r.stdout + r.stderr)[-600:]
        if "--no-suite" not in sys.argv:
            r = sh(f"cd {wt} && timeout 3000 /venv/bin/python -m pytest -q -p no:cacheprovider --timeout=900 tests 2>&1 | tail -6", env=env)
            m = re.search(r"(\d+) failed, (\d+) passed", r.stdout) or re.search(r"(\d+) passed", r.stdout)
            meta["confirmed"]["suite_tail"] = r.stdout.strip().splitlines()[-1] if r.stdout.strip() else ""
            meta["confirmed"]["suite_38_pass"] = bool(re.search(r"\b38 passed", r.stdout)) and "test_cli" in r.stdout or bool(re.search(r"3 failed, 38 passed", r.stdout))
        for p in props:
            t0 = time.time()
            e2 = dict(os.environ, PYGAMMA_REPO=wt, VERIF_OUT_DIR=out, VERIF_PROCS=os.environ.get("MUT_PROCS", "8"))
            r = subprocess.run(["/venv/bin/python", "pbt/run.py", p, "--tier", os.environ.get("TIER", "quick")], cwd=VERIF, env=e2,
                               capture_output=True, text=True, timeout=3000)
            meta["checks"][p] = {"cmd": f"PYGAMMA_REPO=<worktree with patch> /venv/bin/python pbt/run.py {p} --tier quick", "rc": r.returncode,
                                 "wall_s": round(time.time() - t0, 1),
                                 "violations": [l.strip()[:400] for l in r.stdout.splitlines() if l.startswith("  violation")][:4],
                                 "harness": [l[:300] for l in r.stdout.splitlines() if l.startswith("HARNESS")][:2]}
    finally:
        try:
            diff_text = open(diff).read()
        except Exception:
            diff_text = None
        sh(f"git -C /repo worktree remove --force {wt}; rm -rf {out}")
    ok = (meta["confirmed"].get("demo_on_clean_rc") == 0 and meta["confirmed"].get("demo_on_changed_rc", 0) != 0
          and meta["confirmed"].get("suite_38_pass", "--no-suite" in sys.argv))
    meta["kept"] = bool(ok)
    dst = os.path.join(VERIF, "seeded", sid)
    if ok:
        os.makedirs(dst, exist_ok=True)
        open(os.path.join(dst, "patch.diff"), "w").write(diff_text)
        shutil.copy(demo_src, os.path.join(dst, "demo.py"))
        for nf in (f"{src}/notes{var}.md", f"{src}/notes.md"):
            if os.path.exists(nf):
                shutil.copy(nf, os.path.join(dst, "notes.md"))
                break
        json.dump(meta, open(os.path.join(dst, "meta.json"), "w"), indent=1)
    print(json.dumps(meta, indent=1))
    return 0


if __name__ == "__main__":
    sys.exit(main())
