#!/bin/bash
# usage: run_suite.sh <label>   -- runs the repository's own suite on a scratch worktree of /repo HEAD
set -u
label=${1:-suite}
wt=/tmp/wt_$label
rm -rf $wt; git -C /repo worktree prune
git -C /repo worktree add --detach $wt HEAD >/dev/null 2>&1
cd $wt
/venv/bin/python -c "import pygamma_agreement,sys; print(pygamma_agreement.__file__)" 
/venv/bin/python -m pytest -ra -q -p no:cacheprovider --timeout=900 --continue-on-collection-errors 2>&1 | tail -15 > /tmp/suite_$label.log
git -C /repo rev-parse --short HEAD >> /tmp/suite_$label.log
cd /; git -C /repo worktree remove --force $wt
