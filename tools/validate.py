#!/usr/bin/env python3
"""python3-vt tools/validate.py : validates MANIFEST.json and every evidence file against the schemas."""
import json, glob, sys, os
import jsonschema
V = os.path.dirname(os.path.dirname(os.path.abspath(__file__)))
ok = True
m = json.load(open(f"{V}/MANIFEST.json"))
try:
    jsonschema.validate(m, json.load(open("/root/.vp/MANIFEST.schema.json"))); print("MANIFEST ok", len(m["checks"]), "checks")
except Exception as e:
    ok = False; print("MANIFEST INVALID", e)
es = json.load(open("/root/.vp/EVIDENCE.schema.json"))
for p in sorted(glob.glob(f"{V}/evidence/*.json")):
    try:
        jsonschema.validate(json.load(open(p)), es); print("ok", os.path.basename(p))
    except Exception as e:
        ok = False; print("INVALID", p, str(e)[:300])
sys.exit(0 if ok else 1)
