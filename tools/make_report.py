#!/venv/bin/python
"""Regenerates DESIGN.md section 10 (between the BEGIN/END markers) from seeded/*/meta.json and sensitivity/results.json."""
import json
import os

VERIF = os.path.dirname(os.path.dirname(os.path.abspath(__file__)))
BEGIN, END = "<!-- BEGIN GENERATED SENSITIVITY -->", "<!-- END GENERATED SENSITIVITY -->"

EQUIVALENT = {
    "c03-slot-by-position": "equivalent for disorders: the mean over all annotator pairs is invariant under permuting slots",
    "c10-limit-strict": "no observable effect on the property: a unitary alignment ending exactly at the limit is simply taken one window later",
    "c17-missing-skipped-when-repeat": "equivalent verdict: an alignment with both a missing and a repeated unit is still rejected with SetPartitionError (by the repeat branch)",
}


NOT_A_MISS = {
    "C05F": "not reported, by design: the table maps 'low' to 0.1 but compute_gamma's docstring says 'low : 5%'; the statement does not fix the number, "
            "so the check accepts both (stated in its ASSUMPTIONS). Every other named or numeric level is pinned.",
}


def first_sig(vlist):
    if not vlist:
        return ""
    v = vlist[0]
    if "sig=" in v:
        v = v.split("sig=", 1)[1]
    return v.split(" ")[0][:70]


def main():
    lines = [BEGIN, ""]
    # ---- seeded changes
    lines += ["### 10.1 Independently seeded changes (`seeded/<id>/`)", "",
              "Each change was written by a fresh sub-agent that saw only the text of one property and a scratch worktree (nothing from /verif). It was kept "
              "only after I confirmed, in a scratch worktree, that the demonstration passes on the clean tree and fails with the change, and that the repository's "
              "own suite still gives 38 passed (`tools/seed_eval.py`). The verdict column comes from the prescribed procedure (`tools/seed_confirm.py`): "
              "`git -C /repo apply seeded/<id>/patch.diff`, the registered quick command, `git -C /repo checkout -- .`.", "",
              "| id | what it needs in order to manifest | caught by (quick tier) | first signature |", "|---|---|---|---|"]
    sd = os.path.join(VERIF, "seeded")
    n_total = n_caught = 0
    notes = []
    for sid in sorted(os.listdir(sd)):
        mp = os.path.join(sd, sid, "meta.json")
        if not os.path.exists(mp):
            continue
        m = json.load(open(mp))
        off = m.get("official_run", {})
        res = off.get("results", {})
        caught = m.get("caught_by")
        if caught is None:
            caught = sorted(p for p, r in m.get("checks", {}).items() if r.get("rc") == 1)
            src = m.get("checks", {})
        else:
            src = res
        n_total += 1
        n_caught += bool(caught)
        sig = ""
        for p in caught:
            sig = first_sig(src.get(p, {}).get("violations", []))
            if sig:
                break
        verdict = ", ".join(caught) if caught else ("accepted variant (see note)" if sid in NOT_A_MISS else "**missed**")
        if not caught and sid in NOT_A_MISS:
            notes.append(f"* {sid}: {NOT_A_MISS[sid]}")
        lines.append(f"| {sid} | {m.get('needs_to_manifest', '')} | {verdict} | `{sig}` |")
    lines += ["", f"{n_caught} of {n_total} kept seeded changes are caught by at least one registered quick check. Ids ending in A/B come from the first round, "
              "C/D from the second (agents were told what the first round had tried and asked for state carried between calls, interacting sites, rarely used "
              "paths), E/F from the third (told about both earlier rounds; asked for arithmetic, boundary, option-interaction and timing faults). "
              "Changes missed by the version of the checks that existed when they arrived, and the strengthening each one led to (section 9): "
              "(a fourth, short round - ids ending in G, one change for each of ten properties - was caught entirely by the checks as they stood, except C03G and C05G "
              "which led to hand-built alignments at large float32-inexact times and to a clock-free termination guard for a sampler draw); "
              "round 1 - C04B, C05A, C05B, C06B, C07A, C07B, C09B, C11A, C12B, C14B, C15A, C19A, C19B, C20B; round 2 - C04D (C04 itself; C02/C07 caught it), C07D, "
              "C09D (caught by C02 `larger`), C14D, and C20C/C20D whose demonstrations had to be run from inside the scratch worktree; round 3 - C06E, C16F; "
              "round 5 (ids ending in H, one change for each of the 20 properties, 19 kept - the C14 one breaks two repository tests) - C02H (new `bridge` sub-check), "
              "C04H (new `supply-order` sub-check), C17H (exact affine time maps); the other 16 were caught by the checks as they stood. "
              "One further agent output (round-1 C02 variant B) duplicates C01B/C08A and is not kept separately.", ""] + notes + [""]
    # ---- hand-written faults
    rp = os.path.join(VERIF, "sensitivity", "results.json")
    if os.path.exists(rp):
        r = json.load(open(rp))
        lines += ["### 10.2 Hand-written faults from the 'Targets' lists (`tools/mutants.py`, `sensitivity/results.json`)", "",
                  "Each fault is a one-site textual change applied to a scratch worktree; the quick checks of the listed properties are run against it "
                  "(these faults were not required to pass the repository's suite).", "",
                  "| fault | verdict per check (1 = VIOLATION reported, 0 = quiet) | note |", "|---|---|---|"]
        caught = 0
        for k in sorted(r):
            v = r[k]
            res = {p: x["rc"] for p, x in v.get("results", {}).items()}
            ok = any(rc == 1 for rc in res.values())
            caught += ok
            note = EQUIVALENT.get(k, "" if ok else "missed")
            if v.get("error"):
                note = v["error"]
            lines.append(f"| {k} | {', '.join(f'{p}:{rc}' for p, rc in res.items())} | {note} |")
        lines += ["", f"{caught} of {len(r)} faults are reported; the {len(r) - caught} quiet ones are equivalent changes with respect to the property (see notes).", ""]
    lines += ["### 10.3 False-alarm runs on the unchanged (repaired) tree", "",
              "* every quick check was run at VERIF_SEED 1 to 9 in fresh processes with PYTHONHASHSEED=0 (seeds 2-5 before the third seeded round, seeds 1, 6, 7, 8 and 9 on the final code): "
              "no VIOLATION, no harness error, no budget hit;",
              "* `vp check` (fresh copy of the sandbox, offline, setup_cmd + every quick command): request 1 flagged one alarm - C20 could not parse a `-inf` cell of the CSV report "
              "(machinery error, corrected, section 9); requests 2, 3 and 4 (after the second round, after the third, and on the final committed state): nothing needed attention;",
              "* thorough-tier trial runs of all 20 checks (outputs under `thorough_runs/`): one false alarm (C12 tolerance, corrected, section 9), no other alarm; "
              "C14's thorough size was reduced after a first run exceeded its time limit (state-machine sub-checks now obey a budget like the others) and C05's after its "
              "budget cut the tail of a run; C12 and C14 were re-run afterwards (73600 cases / 2617 histories, quiet).", ""]
    lines.append(END)
    block = "\n".join(lines)
    p = os.path.join(VERIF, "DESIGN.md")
    s = open(p).read()
    if BEGIN in s:
        s = s[:s.index(BEGIN)] + block + s[s.index(END) + len(END):]
    else:
        s = s.rstrip("\n") + "\n\n\n## 10. Sensitivity results: which check catches which change\n\n" + block + "\n"
    open(p, "w").write(s)
    print("section 10 regenerated:", n_caught, "/", n_total, "seeded")


if __name__ == "__main__":
    main()
