#!/venv/bin/python
"""Regenerates /verif/MANIFEST.json from the table below and validates it against the schema."""
import json
import os
import sys

HERE = os.path.dirname(os.path.abspath(__file__))
VERIF = os.path.dirname(HERE)

PY = "/venv/bin/python"

TABLE = {
    "C01": dict(
        technique="property-based testing (Hypothesis) + bounded exhaustive enumeration; oracle = two-directional partition predicate",
        text="Generated-input search: every best alignment returned for generated continua (2-5 annotators, empty annotators, "
             "coinciding/nested/identical/unlabelled units, every built-in dissimilarity, CBC and GLPK back-ends) is checked "
             "against an independent multiset partition predicate; a small grid is enumerated exhaustively; histories re-align the same objects after in-place edits. Exploration, not proof.",
        note="Trusts the check's own model of the continuum (set of (annotator,start,end,label)) and the solver spy; GLPK reached by masking `import cylp`.",
        ref="5/C01"),
    "C02": dict(
        technique="property-based testing with an independent exact optimum oracle (bitmask DP / assignment / HiGHS MILP over unpruned candidates)",
        text="The library's best-alignment disorder is compared two-sidedly with an independent optimum over the UNPRUNED candidate set "
             "(float64 reference formulas; DP for tiny, Hungarian for 2 annotators, HiGHS upper+dual bound otherwise), on generated continua "
             "and an exhaustive grid, both back-ends; dense 3x14 continua, in-place edit histories on the same objects and extreme delta_empty scales (1e-8..1e4) are included.",
        note="Trusts scipy (HiGHS, linear_sum_assignment) and the reference formulas written from the property statement; tolerance 2e-5 relative on float32-exact inputs.",
        ref="5/C02"),
    "C03": dict(
        technique="property-based testing; oracle = re-implemented disorder definition (differential) + slot-permutation metamorphic relation",
        text="Disorders carried by returned alignments (best/fast/soft), per-unitary disorders, recomputed disorders and hand-built alignments "
             "with arbitrary empty-slot patterns are compared with a float64 re-implementation of the definition; slot order is permuted.",
        note="Reference formulas written from the property statement; tolerance 2e-5 relative.",
        ref="5/C03"),
    "C04": dict(
        technique="property-based testing; differential (compiled form vs unit form vs documented formula) + metamorphic (label order, category-set embedding, proportionality)",
        text="For generated unit pairs and every dissimilarity class/parameterisation (1..300 categories, shuffled label order, components with "
             "different delta_empty) the compiled value, the unit-to-unit value and the documented formula are compared; symmetry, zero on identity, "
             "name-only dependence and ordinal proportionality are checked; sequences of objects (same labels, other order/positions; default components with other delta_empty) and a continuum "
             "whose categories grow in place are included.",
        note="Compiled form observed through a 2-annotator unitary alignment's disorder (public API). Levenshtein: both /max(len) and /(max(len)+1) accepted.",
        ref="5/C04"),
    "C05": dict(
        technique="property-based testing; recording sampler (public subclass API) + recomputation oracle for N_required, mean and gamma",
        text="compute_gamma is run on generated small continua with generated n_samples/precision/sampler/ground-truth/mode; a recording sampler logs "
             "every draw; the number of draws, freshness/validity/kind of samples (both batches), optimality of chance alignments, expected disorder and gamma are recomputed independently; "
             "histories (earlier computation with the same sampler, in-place edit) and extreme delta_empty scales are included.",
        note="Population and sample standard deviation both accepted for CV; 'low' accepted as 0.1 or 0.05; exact optimum oracle from C02.",
        ref="5/C05"),
    "C06": dict(
        technique="schedule-owning executor substituted test-side (generated start orders / worker counts / delays) + PYTHONHASHSEED sub-process differential",
        text="The same seeded gamma computation is repeated under generated thread schedules (harness-owned executor starting jobs in a generated order on real threads), "
             "real pools with 1..16 workers, repeated runs in one process and sub-processes with different hash seeds; all reported numbers must be identical.",
        note="Schedule is owned at job granularity; interleavings inside native code are exercised, not enumerated.",
        ref="5/C06"),
    "C07": dict(
        technique="property-based testing with constructed candidate counts; oracle = vectorised float64 enumeration of all index tuples",
        text="Candidate sets returned by valid_alignments are compared (as multisets, with disorders) with an independent enumeration under the n*delta_empty cut, "
             "for generated small continua, for constructed continua whose candidate count hits every buffer-growth boundary (10000, 15000, 22500, 33750), for costs landing exactly on the cut "
             "(decided with rational arithmetic), for one-expensive-pair tuples and for in-place edit histories.",
        note="Three-valued membership within 1e-5 relative of the threshold (float32 vs float64).",
        ref="5/C07"),
    "C08": dict(
        technique="property-based differential testing across solver configurations with fault injection (cylp masked / CBC SolverError injected)",
        text="Each generated continuum is solved under three back-end configurations (CBC, cylp import failing, CBC raising SolverError); a spy confirms the solver used; "
             "partition/cover predicates and equality of optimal disorders (also vs the independent oracle) are checked.",
        note="Fault injection is test-side (cvxpy.Problem.solve wrapper, sys.modules).",
        ref="5/C08"),
    "C09": dict(
        technique="metamorphic property-based testing (renaming, permutation, translation, scaling, delta_empty scaling)",
        text="For generated continua, including ones too large for an exact oracle, the best-alignment disorder must be unchanged by annotator/category renaming, "
             "translation and positive scaling, and scale linearly with delta_empty while seeded gamma stays unchanged.",
        note="Exact transformations (dyadic translations, power-of-two scalings) use the base tolerance; other factors use an analytically widened band.",
        ref="5/C09"),
    "C10": dict(
        technique="property-based testing; termination by state-repetition detection (wrapped public get_first_window), partition predicate, optimum oracle",
        text="Fast alignment is run on generated continua (clusters with crossed labels, nested/long units, empty annotators) for window sizes 1..ceil(u/n)+1; "
             "an iteration that removes nothing proves non-termination; result must be a partition with matching disorder, never below the optimum, equal to it when the window covers everything.",
        note="Termination decided without clocks: the loop is deterministic in its working copy, so a non-progressing iteration is a proof of a hang.",
        ref="5/C10"),
    "C11": dict(
        technique="property-based testing with an independent exact minimum-cover oracle (DP / HiGHS with >=1 rows)",
        text="Soft alignments of generated continua are checked to be covers made of well-formed unitary alignments with the minimum disorder over covers (two-sided), and never above the best partition.",
        note="Same trusted base as C02.",
        ref="5/C11"),
    "C12": dict(
        technique="property-based testing; oracle = re-implementation of the gamma-cat / gamma-k definition",
        text="gamma_k_disorder, gamma_cat and gamma_k are compared with a re-implementation of the stated definition on generated alignments (best, soft, arbitrary partitions, "
             "any empty-slot pattern), categories present/absent and all categorical components; bounds and the =1 cases are checked; non-combined dissimilarities must be refused.",
        note="Degenerate alignments (no real pair counted) are executed and must not crash but are not compared.",
        ref="5/C12"),
    "C13": dict(
        technique="model-based stateful testing (Hypothesis RuleBasedStateMachine vs dict-of-sets model) + exhaustive short histories",
        text="Operation histories (add, add_annotator, remove, merge in/out of place, +, copy, copy_flush, reset_bounds, reads, ==) over up to 4 continua are run against a plain "
             "set-per-annotator model with invariants after every step; all histories up to a bounded length over a small alphabet are enumerated.",
        note="Model written from the docstrings and the property statement.",
        ref="5/C13"),
    "C14": dict(
        technique="model-based stateful testing: snapshot-before / snapshot-after every public computation, then mutation of results",
        text="A rule-based machine calls every public computation entry point on generated continua/dissimilarities, then mutates returned objects; deep snapshots of the inputs "
             "(annotators, units, categories, bounds; dissimilarity parameters and probe values) must be unchanged.",
        note="Only tolerated difference: best_window_size after fast gamma (documented).",
        ref="5/C14"),
    "C15": dict(
        technique="property-based testing with per-draw validity predicates and statistical differential testing against an independent simulator (fixed 1e-9 false-alarm level)",
        text="Every draw is checked for validity; over many draws unit counts, gaps, durations and category frequencies are compared with an independent simulator of the stated generative model.",
        note="Statistical oracle at a fixed, astronomically small false-alarm level; estimator variants the docs leave open are all accepted.",
        ref="5/C15"),
    "C16": dict(
        technique="property-based testing; oracle = structural reconstruction of (ground-truth annotator, pivot) explanations for every sampled annotator",
        text="Each sampled annotator must be explained as one ground-truth annotator shifted by one pivot with the documented wrap; pivots within bounds, integral in int mode and "
             "pairwise separated when the continuum is long enough (existential over explanations).",
        note="Reconstruction uses only public outputs.",
        ref="5/C16"),
    "C17": dict(
        technique="property-based testing + exhaustive 2x2 enumeration; oracle = occurrence counts per (annotator, unit)",
        text="Valid partitions/covers and edited variants (dropped, duplicated, moved, re-slotted units, permuted order) are checked by Alignment.check / SoftAlignment.check and the constructor flag; "
             "accept/reject must match occurrence counts.",
        note="Oracle is an independent count over the model.",
        ref="5/C17"),
    "C18": dict(
        technique="round-trip and generated-file property-based testing (CSV, RTTM, TextGrid, ELAN)",
        text="CSV round trips over arbitrary field text/delimiters/floats and generated RTTM/TextGrid/ELAN files with known expected unit sets.",
        note="Third-party reader limitations (pandas NA tokens, TextGrid precision) bound the domain and are stated in the evidence.",
        ref="5/C18"),
    "C19": dict(
        technique="property-based testing; validity and confinement predicates per perturbation (metamorphic before/after comparison)",
        text="Corpora produced for generated references, magnitudes, annotator sets and all 64 flag combinations are checked for validity; each perturbation applied alone must be confined as stated.",
        note="Measure-zero coincidences (a shifted unit landing on another) are detected and counted as trivial.",
        ref="5/C19"),
    "C20": dict(
        technique="differential property-based testing: in-process CLI vs API on generated files and option sets; three output modes",
        text="The CLI entry point is run in-process on generated CSV/RTTM files and option sets; printed / CSV / JSON numbers must equal the API's for the same seed and options; each option must take effect.",
        note="Directory arguments limited to single-file directories (OS-defined iteration order).",
        ref="5/C20"),
}

NOT_YET = "check not implemented yet in this commit (work in progress; the technique applies, see DESIGN.md section 5)"


def main():
    impl = sorted(f[:-3].upper() for f in os.listdir(os.path.join(VERIF, "pbt", "props"))
                  if f.startswith("c") and f.endswith(".py") and f[1:-3].isdigit())
    checks = []
    na = []
    for pid in sorted(TABLE):
        t = TABLE[pid]
        if pid not in impl:
            na.append({"property_id": pid, "reason": NOT_YET})
            continue
        checks.append({
            "property_id": pid,
            "quick_cmd": f"{PY} pbt/run.py {pid} --tier quick",
            "thorough_cmd": f"{PY} pbt/run.py {pid} --tier thorough",
            "evidence_file": f"/verif/evidence/{pid}.json",
            "replay_cmd_template": f"{PY} pbt/run.py {pid} --replay {{path}}",
            "engine": "pbt",
            "level_claimed": {"category": "exploration", "text": t["text"], "design_ref": f"DESIGN.md section {t['ref']}"},
            "level_note": t["note"],
            "technique": t["technique"],
        })
    manifest = {
        "version": 1,
        "setup_cmd": "/venv/bin/pip install --no-index --find-links /opt/veriftools/wheels hypothesis >/dev/null 2>&1; "
                     "/venv/bin/python -c \"import hypothesis, scipy, numpy; print('setup ok', hypothesis.__version__)\"",
        "hooks": {
            "guard": "PYGAMMA_AGREEMENT_VERIF",
            "enable": "no source hooks exist: all observation points are public API or test-side substitution of module attributes; "
                      "the runner sets PYGAMMA_AGREEMENT_VERIF=1 for completeness",
            "baseline_off_cmd": "cd /repo && /venv/bin/python -m pytest -ra -q -p no:cacheprovider --timeout=900 --continue-on-collection-errors",
            "source_commits": [],
            "add_only": True,
        },
        "engines": [{
            "name": "pbt", "path": "/verif/pbt",
            "serves_properties": [c["property_id"] for c in checks],
            "kind_free_text": "Hypothesis-driven property-based / stateful testing with independent oracles, sharded over forked workers; "
                              "bounded exhaustive enumeration for small sub-spaces",
        }],
        "checks": checks,
        "notes": "Checks import pygamma_agreement from /repo's working tree (numba compiles at import; no cache). Exit 0 = held, 1 = VIOLATION line, 2 = harness error. "
                 "Known findings: /verif/known_findings.txt.",
        "not_applicable": na,
    }
    path = os.path.join(VERIF, "MANIFEST.json")
    with open(path, "w") as f:
        json.dump(manifest, f, indent=1)
        f.write("\n")
    try:
        import jsonschema
        schema = json.load(open("/root/.vp/MANIFEST.schema.json"))
        jsonschema.validate(manifest, schema)
        print("MANIFEST valid;", len(checks), "checks;", len(na), "not_applicable")
    except ImportError:
        print("jsonschema not available; wrote without validation")


if __name__ == "__main__":
    main()
