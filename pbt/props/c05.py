"""C05 - gamma is 1 - observed/expected over the requested chance samples."""
import math

import numpy as np
from hypothesis import strategies as st

from ..common import gen, oracle, preds, fastguard
from ..common.core import Sub, Violation, lib_call
from ..common.env import import_library

ID = "C05"
RULE = ("case = (small labelled continuum 2-4 annotators, dissimilarity, n_samples 1..12, precision None | float in (0.03, 0.9) | 'low' ('medium'/'high' "
        "only in the thorough tier on tiny continua), sampler statistical | shuffle int | shuffle float, ground-truth subset (>= 2) or None, mode exact | fast | soft, "
        "NumPy seed). A recording sampler (public AbstractContinuumSampler subclass delegating to the real one) logs every continuum handed out. "
        "Oracle: observed disorder = independent optimum (exact: partition, soft: cover; fast: same public method on a fresh copy, and >= optimum); number of "
        "draws = len(chance alignments) = max(n, ceil((1.96*CV/p)^2)) recomputed from the first n chance disorders (population or sample std accepted, "
        "+-1e-6 band at the ceiling); no extra draw without precision; chance_alignments[i].continuum is draws[i], all distinct fresh objects; each draw "
        "non-empty with len(ground truth) annotators coming from the ground truth; each chance alignment is a partition/cover of its draw with matching "
        "(and, when small enough, optimal) disorder; expected = mean; gamma = 1 - obs/exp (1 when obs = 0) <= 1; identical annotators => gamma = 1. "
        "Non-trivial = >= 2 samples and (second batch triggered, or ground-truth subset, or non-default mode/sampler); distinct = canonical JSON.")
ASSUMPTIONS = ["CV may use the population or the sample standard deviation (the statement does not fix it); 'low' accepted as 0.1 (table) or 0.05 (docstring)",
               "samplers' precondition: labelled units; reference continuum non-empty"]

NAMED = {"high": [0.01], "medium": [0.02], "low": [0.1, 0.05]}


def make_recorder(pa, inner):
    class Recorder(pa.AbstractContinuumSampler):
        def __init__(self):
            super().__init__()
            self.inner = inner
            self.draws = []
            self.inits = []

        def init_sampling(self, reference_continuum, ground_truth_annotators=None):
            super().init_sampling(reference_continuum, ground_truth_annotators)
            self.inits.append((reference_continuum, None if ground_truth_annotators is None else list(ground_truth_annotators)))
            self.inner.init_sampling(reference_continuum, ground_truth_annotators)

        @property
        def sample_from_continuum(self):
            # termination of one draw without a clock: the shuffle sampler retries while its sample is empty, every retry
            # calls the public add_annotator once per sampled annotator; tens of thousands of calls inside ONE draw mean
            # that no retry can ever succeed (e.g. annotators taken from outside the ground truth and all empty)
            C = pa.Continuum
            orig = C.add_annotator
            count = [0]

            def counting(self_, annotator):
                count[0] += 1
                if count[0] > 20000:
                    raise Violation("sampler-does-not-terminate", f"{count[0]} add_annotator calls inside one draw")
                return orig(self_, annotator)
            C.add_annotator = counting
            try:
                s = self.inner.sample_from_continuum
            finally:
                C.add_annotator = orig
            self.draws.append(s)
            return s
    return Recorder()


def _optimum(spec, per, cover):
    lst = [per[a] for a in sorted(per)]
    n = len(lst)
    nunits = sum(len(p) for p in lst)
    costs = oracle.all_tuple_costs(spec, lst)
    if n == 2 and not cover:
        up = lo = oracle.optimum_assignment(spec, lst)
    elif nunits <= 9:
        up = lo = oracle.optimum_dp(lst, costs, cover)
    else:
        up, lo = oracle.optimum_milp(lst, costs, cover)
    mean = nunits / n
    return up / mean, lo / mean


def _cont_case(c):
    return {"annotators": list(c.annotators), "units": [[a, u.segment.start, u.segment.end, u.annotation] for a, u in c]}


def check(case):
    pa = import_library()
    cont, spec, mode = case["continuum"], case["dissim"], case["mode"]
    per = oracle.per_annotator(cont)
    c = oracle.build_continuum(cont)
    d = oracle.build_dissim(spec)
    kind = case["sampler"]
    inner = pa.StatisticalContinuumSampler() if kind == "statistical" else \
        pa.ShuffleContinuumSampler(pivot_type="int_pivot" if kind == "shuffle-int" else "float_pivot")
    rec = make_recorder(pa, inner)
    gt = case["ground_truth"]
    gt_names = sorted(per) if gt is None else sorted(gt)
    n = case["n_samples"]
    prec = case["precision"]
    np.random.seed(case["seed"])
    prelude = case.get("prelude")
    if prelude:
        # multi-step history with ONE sampler object and ONE continuum object: an earlier computation (other ground
        # truth), optionally followed by an in-place edit of the continuum, must not leak into the computation under test
        from pyannote.core import Segment
        with fastguard.guard():
            lib_call("compute_gamma[prelude]", c.compute_gamma, d, n_samples=1, precision_level=None,
                     ground_truth_annotators=prelude["ground_truth"], sampler=rec, fast=(mode == "fast"), soft=(mode == "soft"))
        if prelude.get("edit"):
            lab = cont["units"][0][3]
            extra = [["Zoe", 2.0, 5.0, lab], [sorted(per)[0], 40.0, 47.5, lab]]
            for a, s_, e_, l_ in extra:
                c.add(a, Segment(s_, e_), l_)
            cont = dict(cont, annotators=list(cont["annotators"]) + ["Zoe"], units=cont["units"] + extra)
            per = oracle.per_annotator(cont)
            if gt is None:
                gt_names = sorted(per)
        rec.draws.clear()
        rec.inits.clear()
    with fastguard.guard():
        g = lib_call("compute_gamma", c.compute_gamma, d, n_samples=n, precision_level=prec,
                     ground_truth_annotators=None if gt is None else list(gt), sampler=rec,
                     fast=(mode == "fast"), soft=(mode == "soft"))
    classes = [f"mode={mode}", f"sampler={kind}", ("prelude+edit" if prelude.get("edit") else "prelude") if prelude else "single-call", "gt-subset" if gt is not None else "gt-all",
               "precision=None" if prec is None else ("precision=named" if isinstance(prec, str) else "precision=float")]
    tolr = oracle.REL_TOL
    # ---- 1. observed disorder
    obs = float(g.observed_disorder)
    slots = (preds.check_cover if mode == "soft" else preds.check_partition)(g.best_alignment, per, "observed")
    preds.check_reported_disorders(g.best_alignment, slots, spec, per, "observed")
    if gen.continuum_product(cont) <= 1300:
        up, lo = _optimum(spec, per, cover=(mode == "soft"))
    else:   # long continua (fast mode only): no independent optimum, the library's exact alignment is the reference
        up = lo = float(oracle.build_continuum(cont).get_best_alignment(d).disorder)
        classes.append("long-continuum")
    if mode in ("exact", "soft"):
        if obs > up + tolr * max(1, up) or obs < lo - tolr * max(1, lo):
            raise Violation("observed-not-the-optimum", f"mode {mode}: observed {obs} reference [{lo}, {up}]")
    else:
        c2 = oracle.build_continuum(cont)
        c2.measure_best_window_size(d)
        if c2.best_window_size == np.inf:
            classes.append("fast:window=inf")
            if obs > up + tolr * max(1, up) or obs < lo - tolr * max(1, lo):
                raise Violation("observed-not-the-optimum", f"fast with inf window: observed {obs} reference [{lo}, {up}]")
        else:
            classes.append("fast:window=finite")
            with fastguard.guard():
                ref = float(c2.get_fast_alignment(d, c2.best_window_size).disorder)
            if not oracle.close(obs, ref):
                raise Violation("observed-not-the-fast-alignment", f"observed {obs} vs get_fast_alignment {ref}")
            if obs < lo - tolr * max(1, lo):
                raise Violation("observed-below-optimum", f"{obs} < {lo}")
    # ---- 2. number of samples
    chance = [float(a.disorder) for a in g.chance_alignments]
    if len(chance) != len(rec.draws) or g.n_samples != len(rec.draws):
        raise Violation("sample-count-inconsistent", f"{len(rec.draws)} draws, {len(chance)} chance alignments, n_samples {g.n_samples}")
    if len(rec.inits) != 1 or rec.inits[0][0] is not c:
        raise Violation("sampler-not-initialised-with-input", f"{len(rec.inits)} init calls")
    if (rec.inits[0][1] is None) != (gt is None) or (gt is not None and sorted(rec.inits[0][1]) != gt_names):
        raise Violation("ground-truth-not-forwarded", f"{rec.inits[0][1]} vs {gt}")
    second_batch = False
    if prec is None:
        if len(chance) != n:
            raise Violation("extra-samples-without-precision", f"{len(chance)} samples for n_samples={n}")
    else:
        first = np.array(chance[:n], dtype=np.float64)
        mean = first.mean() if len(first) else float("nan")
        accepted = set()
        plist = NAMED[prec] if isinstance(prec, str) else [float(prec)]
        if len(first) < n:
            raise Violation("fewer-samples-than-requested", f"{len(chance)} < {n}")
        if mean > 0 and np.isfinite(mean):
            for ddof in (0, 1):
                if ddof == 1 and n < 2:
                    continue
                cv = first.std(ddof=ddof) / mean
                for p in plist:
                    arg = (1.96 * cv / p) ** 2
                    for f in (1 - 1e-6, 1.0, 1 + 1e-6):
                        accepted.add(max(n, int(math.ceil(arg * f))))
            if len(chance) not in accepted:
                raise Violation("sample-count-not-max(n,N_required)", f"{len(chance)} samples; accepted {sorted(accepted)} (n={n}, precision={prec}, first disorders {first.tolist()[:6]})")
            second_batch = len(chance) > n
        else:
            classes.append("cv-undefined")
    if second_batch:
        classes.append("second-batch")
    # ---- 3/4/5. the draws
    ids = set()
    for i, (al, s) in enumerate(zip(g.chance_alignments, rec.draws)):
        if al.continuum is not s:
            raise Violation("chance-alignment-not-of-its-draw", f"sample {i}")
        if s is c or id(s) in ids:
            raise Violation("sample-object-reused", f"sample {i}")
        ids.add(id(s))
        if not s:
            raise Violation("empty-sample", f"sample {i}")
        if len(s.annotators) != len(gt_names):
            raise Violation("sample-annotator-count", f"sample {i}: {list(s.annotators)} vs ground truth {gt_names}")
        sc = _cont_case(s)
        sper = oracle.per_annotator(sc)
        if kind == "statistical":
            if sorted(sper) != gt_names:
                raise Violation("sample-annotators-not-ground-truth", f"sample {i}: {sorted(sper)} vs {gt_names}")
        else:
            sigs = [sorted((round(u[1] - u[0], 6), u[2]) for u in per[a]) for a in gt_names]
            for a, units in sper.items():
                sig = sorted((round(u[1] - u[0], 6), u[2]) for u in units)
                if sig not in sigs:
                    raise Violation("sample-annotator-not-from-ground-truth", f"sample {i} annotator {a}: durations/labels {sig} match no ground-truth annotator {gt_names}")
        sl = (preds.check_cover if mode == "soft" else preds.check_partition)(al, sper, f"chance")
        if min((u[1] - u[0] for us in sper.values() for u in us), default=1.0) < 1e-3:
            classes.append("sample-with-sub-millisecond-unit")     # float32 cannot resolve such a unit: not compared
            continue
        with oracle.f32_inputs():       # sampled continua have arbitrary float times
            preds.check_reported_disorders(al, sl, spec, sper, "chance")
        if mode == "soft" and type(al).__name__ != "SoftAlignment":
            raise Violation("chance-alignment-wrong-kind", f"sample {i}: {type(al).__name__} in soft mode")
        if (i < 3 or n <= i < n + 3) and mode != "fast" and gen.continuum_product(sc) <= 1300:
            with oracle.f32_inputs():
                sup, slo = _optimum(spec, sper, cover=(mode == "soft"))
            v = float(al.disorder)
            if v > sup + tolr * max(1, sup) or v < slo - tolr * max(1, slo):
                raise Violation("chance-alignment-not-optimal", f"sample {i}: {v} reference [{slo}, {sup}]")
    # ---- 6. expected disorder and gamma
    exp = float(g.expected_disorder)
    ref_exp = float(np.mean(chance))
    if not oracle.close(exp, ref_exp, rel=1e-6):
        raise Violation("expected-disorder-not-the-mean", f"{exp} vs mean {ref_exp} of {len(chance)} samples")
    gam = float(g.gamma)
    ref_g = 1.0 if obs == 0 else (1.0 - obs / ref_exp if ref_exp != 0 else -math.inf)
    if not oracle.close(gam, ref_g, rel=1e-5):
        raise Violation("gamma-formula", f"gamma {gam} vs 1 - {obs}/{ref_exp} = {ref_g}")
    if gam > 1 + 1e-9:
        raise Violation("gamma-exceeds-1", f"{gam}")
    sets = [per[a] for a in sorted(per)]
    if all(s == sets[0] for s in sets) and sets[0]:
        classes.append("identical-annotators")
        if not oracle.close(gam, 1.0, rel=1e-6):
            raise Violation("gamma-not-1-for-identical-annotators", f"{gam}")
    if spec["delta"] < 1e-3 or spec["delta"] > 1e3:
        classes.append("extreme-delta-scale")
    nontrivial = len(chance) >= 2 and (second_batch or gt is not None or mode != "exact" or kind != "statistical")
    return {"nontrivial": nontrivial, "classes": classes}


def cases(tier):
    @st.composite
    def strat(draw):
        tiny = draw(st.integers(0, 9)) == 0 and tier == "thorough"
        cs = draw(gen.continuum_and_spec(kinds=("combined", "combined", "pos", "abs", "precomputed", "lev"),
                                         min_ann=2, max_ann=2 if tiny else 4, budget=16 if tiny else 500, max_per=3 if tiny else 6,
                                         shapes=["random", "clusters", "identical", "sparse", "nested"]))
        names = sorted(cs["continuum"]["annotators"])
        cs["mode"] = draw(st.sampled_from(["exact", "exact", "fast", "soft"]))
        cs["sampler"] = draw(st.sampled_from(["statistical", "statistical", "shuffle-int", "shuffle-float"]))
        cs["n_samples"] = draw(st.integers(1, 12))
        if tiny:
            cs["precision"] = draw(st.sampled_from(["medium", "high", "low", 0.02]))
            cs["mode"] = "exact"
        else:
            cs["precision"] = draw(st.one_of(st.none(), st.none(), st.sampled_from(["low", 0.1, 0.1, 0.3]),
                                             st.floats(0.03 if tier == "thorough" else 0.08, 0.9, allow_nan=False).map(lambda x: round(x, 3))))
        nonempty = sorted({u[0] for u in cs["continuum"]["units"]})

        def with_units(gt):
            # precondition of the samplers: some ground-truth annotator has units (otherwise every sample is empty)
            return gt if any(a in nonempty for a in gt) else sorted(set(gt[1:]) | {nonempty[0]})
        if len(names) > 2 and draw(st.booleans()):
            k = draw(st.integers(2, len(names)))
            cs["ground_truth"] = with_units(sorted(draw(st.permutations(names))[:k]))
        else:
            cs["ground_truth"] = None
        cs["seed"] = draw(st.integers(0, 2 ** 31 - 1))
        if draw(st.integers(0, 3)) == 0:
            pg = None
            if len(names) > 2 and draw(st.booleans()):
                pg = with_units(sorted(draw(st.permutations(names))[:2]))
            cs["prelude"] = {"ground_truth": pg, "edit": draw(st.booleans())}
        if draw(st.integers(0, 7)) == 0:
            # extreme scales of delta_empty: gamma is scale-free, absolute thresholds inside the library are not
            sc = draw(st.sampled_from([1e-9, 1e-6, 1e5]))
            def rescale(sp):
                sp = dict(sp)
                sp["delta"] = sc
                for key in ("pos", "cat"):
                    if sp.get(key):
                        sp[key] = rescale(sp[key])
                return sp
            cs["dissim"] = rescale(cs["dissim"])
        if draw(st.integers(0, 11)) == 0:
            # perfectly regular identical annotators: every sampling deviation is 0, every sample replicates the reference
            k = draw(st.integers(1, 3))
            dur = draw(st.sampled_from([1.0, 2.5, 4.0]))
            nn = draw(st.integers(2, 3))
            nm = ["a", "b", "c"][:nn]
            lab = gen.labels_for(cs["dissim"])[0]
            cs["continuum"] = {"annotators": nm, "units": [[a, j * dur, (j + 1) * dur, lab] for a in nm for j in range(k)], "shape": "regular-identical"}
            cs["ground_truth"] = None
            cs.pop("prelude", None)
            cs["precision"] = None
        if cs["mode"] == "fast" and draw(st.booleans()):
            # long sequential continuum: fast-gamma's estimated window is finite there
            spec = draw(gen.dissim_specs(kinds=("combined", "combined", "pos"), equal_delta_only=True))
            if spec["kind"] == "combined" and spec["alpha"] < 1:
                spec["alpha"] = 1.0
            cs["dissim"] = spec
            cs["continuum"] = draw(gen.sequence_continua(labels=gen.labels_for(spec), sizes=((3, 30, 33), (4, 15, 16))))
            cs["sampler"] = "statistical"
            cs["n_samples"] = draw(st.integers(1, 3))
            cs["precision"] = None
            if "prelude" in cs:
                cs["prelude"] = {"ground_truth": draw(st.sampled_from([None, ["a", "b"], ["b", "c"]])), "edit": cs["prelude"]["edit"]}
            cs["ground_truth"] = draw(st.sampled_from([None, None, ["a", "b"], ["a", "c"], ["a", "b", "c"]]))
        return cs
    return strat()


def subchecks(tier):
    return [
        Sub(name="gamma", check=check, strategy=cases(tier),
            examples={"quick": 45, "thorough": 350}, shards={"quick": 8, "thorough": 16}),
    ]
