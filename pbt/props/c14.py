"""C14 - computations never modify their inputs; derived continua are independent (stateful)."""
import numpy as np
from hypothesis import strategies as st
from hypothesis.stateful import rule, precondition

from ..common import gen, oracle, fastguard
from ..common.core import Sub, Violation, make_machine_base, lib_call
from ..common.env import import_library

ID = "C14"
RULE = ("case = history over up to 3 input continua (2-3 annotators, 1-4 labelled units each) and 4 fresh dissimilarity objects: rules call a public "
        "computation entry point (get_best_alignment, get_best_soft_alignment, get_fast_alignment, get_first_window, measure_best_window_size, compute_gamma "
        "exact/fast/soft with both samplers + gamma_cat/gamma_k, Alignment.compute_disorder/gamma_k_disorder/check, sampler init+draw (both samplers), "
        "CorpusShufflingTool construction with/without extra categories, corpus_from_reference, corpus_shuffle with generated flags, each *_shuffle, copy, "
        "merge, +, c[a]); other rules mutate any returned continuum/set (add a unit with a NEW label, remove a unit, add an annotator, reset bounds) or mutate "
        "an input. Oracle: deep snapshot (annotators, ordered units, categories, bounds, best_window_size; dissimilarity: delta_empty, alpha, beta, categories, "
        "matrix bytes, values of both forms on probe pairs) of EVERY held object taken before each step equals the snapshot after it, except the object the "
        "step is documented to change (only tolerated side effect: best_window_size after fast gamma / measure_best_window_size). "
        "Non-trivial = some result was mutated after the call and the sources re-read; distinct = distinct op log.")
ASSUMPTIONS = ["inputs are labelled continua without empty annotators (precondition of samplers and of the shuffling tool)",
               "snapshots use public accessors only, plus the matrix object the check itself handed to the dissimilarity"]

NEW_LABEL = "ZZZ_new"

SPECS = [
    {"kind": "combined", "alpha": 1.0, "beta": 1.0, "delta": 1.0, "pos": None, "cat": None},
    {"kind": "combined", "alpha": 2.0, "beta": 1.0, "delta": 0.5, "pos": None,
     "cat": {"kind": "precomputed", "cats": ["A", "B", "C", "D"],
             "matrix": [[0, .5, 1, 1], [.5, 0, .25, 1], [1, .25, 0, .5], [1, 1, .5, 0]], "delta": 1.0}},
    {"kind": "combined", "alpha": 1.0, "beta": 2.0, "delta": 1.0, "pos": None,
     "cat": {"kind": "ordinal", "labels": ["D", "B", "A", "C"], "p": None, "delta": 1.0}},
    {"kind": "pos", "delta": 1.0},
]


def snap_continuum(c):
    return ([str(a) for a in c.annotators],
            [(a, oracle.lib_unit_tuple(u)) for a, u in c],
            [str(x) for x in c.categories],
            tuple(float(b) for b in c.bounds),
            float(c.best_window_size))


class Interp:
    def __init__(self):
        self.pa = import_library()
        from pyannote.core import Segment
        self.Segment = Segment
        self.inputs = []        # continua given to computations
        self.derived = []       # continua / sets returned by the library
        self.dissims = [oracle.build_dissim(s, cache=False) for s in SPECS]
        pa = self.pa
        self.probes = [(pa.Unit(Segment(0, 2), "A"), pa.Unit(Segment(1, 4), "B")),
                       (pa.Unit(Segment(3, 5), "C"), pa.Unit(Segment(3, 5.5), "C")),
                       (pa.Unit(Segment(0, 1), "D"), pa.Unit(Segment(10, 12), "A"))]
        self.mutated_result = False
        self.calls = set()

    def info(self):
        return {"nontrivial": self.mutated_result and len(self.calls) > 0, "classes": sorted(self.calls)}

    # ---------------------------------------------------------------- snapshots
    def snap_dissim(self, d):
        pa = self.pa
        vals = []
        for u, v in self.probes:
            vals.append(float(d.d(u, v)))
            vals.append(float(pa.UnitaryAlignment([("a", u), ("b", v)]).compute_disorder(d)))
        out = [float(d.delta_empty), None if d.categories is None else [str(x) for x in d.categories], vals]
        if hasattr(d, "alpha"):
            out += [float(d.alpha), float(d.beta), float(d.positional_dissim.delta_empty), float(d.categorical_dissim.delta_empty)]
            m = getattr(d.categorical_dissim, "_matrix", None)
            if m is not None:
                out.append(np.asarray(m).tobytes())
        return out

    def snapshot(self):
        return {"inputs": [snap_continuum(c) for c in self.inputs],
                "derived": [self._snap_derived(x) for x in self.derived],
                "dissims": [self.snap_dissim(d) for d in self.dissims]}

    def _snap_derived(self, x):
        if hasattr(x, "annotators"):
            return snap_continuum(x)
        return [oracle.lib_unit_tuple(u) for u in x]       # a SortedSet of units

    def compare(self, before, after, allowed, what):
        for group in ("inputs", "derived", "dissims"):
            for i, (b, a) in enumerate(zip(before[group], after[group])):
                if (group, i) in allowed:
                    continue
                if b == a:
                    continue
                if group != "dissims" and ("window", group, i) in allowed and b[:4] == a[:4]:
                    continue
                field = "?"
                if group == "dissims":
                    field = "dissimilarity"
                else:
                    names = ["annotators", "units", "categories", "bounds", "best_window_size"]
                    if isinstance(b, tuple):
                        field = ",".join(n for n, x, y in zip(names, b, a) if x != y)
                raise Violation(f"{what}:modifies:{group}:{field}", f"{group}[{i}] before {str(b)[:300]} after {str(a)[:300]}")

    # ---------------------------------------------------------------- operations
    def apply(self, op):
        pa, Segment = self.pa, self.Segment
        kind = op["op"]
        if kind == "new_dissim":
            # constructing another dissimilarity is a computation too: the ones already held must not change
            before = self.snapshot()
            spec = dict(SPECS[op["k"] % len(SPECS)])
            spec["delta"] = [0.25, 0.5, 2.0, 3.0][op["k"] % 4]
            if spec["kind"] == "combined":
                spec["cat"] = None if op["k"] % 2 else spec["cat"]
            oracle.build_dissim(spec, cache=False)
            self.calls.add("new_dissim")
            self.compare(before, self.snapshot(), set(), "new_dissim")
            return
        if kind == "new_input":
            if len(self.inputs) < 3:
                self.inputs.append(oracle.build_continuum(op["cont"]))
            return
        if not self.inputs:
            return
        before = self.snapshot()
        allowed = set()
        label = kind
        if kind == "call":
            label = op["entry"]
            i = op["i"] % len(self.inputs)
            c = self.inputs[i]
            d = self.dissims[op["d"] % len(self.dissims)]
            new = self._call(op, c, d, i, allowed)
            for x in new:
                if len(self.derived) >= 8:
                    self.derived.pop(0)
                    before["derived"].pop(0)
                self.derived.append(x)
            after = self.snapshot()
            after["derived"] = after["derived"][:len(before["derived"])]
            self.calls.add(op["entry"])
        elif kind == "mutate_result":
            if not self.derived:
                return
            j = op["j"] % len(self.derived)
            self._mutate(self.derived[j], op)
            allowed.add(("derived", j))
            self.mutated_result = True
            after = self.snapshot()
        elif kind == "mutate_input":
            i = op["i"] % len(self.inputs)
            self._mutate(self.inputs[i], op, keep_valid=True)
            allowed.add(("inputs", i))
            after = self.snapshot()
        else:
            raise ValueError(kind)
        self.compare(before, after, allowed, label)

    def _mutate(self, x, op, keep_valid=False):
        pa, Segment = self.pa, self.Segment
        how = op["how"]
        if not hasattr(x, "annotators"):          # SortedSet returned by c[a]
            if how == "remove" and len(x):
                x.pop(op["k"] % len(x))
            else:
                x.add(pa.Unit(Segment(100.0 + op["k"], 101.5 + op["k"]), NEW_LABEL))
            return
        units = list(x)
        if keep_valid and how not in ("remove", "add_old_label"):
            how = "add_old_label"
        if how == "remove" and units:
            a, u = units[op["k"] % len(units)]
            if keep_valid and len(x[a]) < 2:
                return
            x.remove(a, u)
        elif how == "add_annotator":
            x.add_annotator("new_annotator")
        elif how == "reset_bounds":
            x.reset_bounds()
        elif how == "add_old_label" and units:
            a, u = units[op["k"] % len(units)]
            x.add(a, Segment(200.0 + op["k"], 203.0 + op["k"]), u.annotation)
        else:
            names = list(x.annotators) or ["new_annotator"]
            if "unitless" in names and op["k"] % 2 == 0:
                names = ["unitless"]
            x.add(names[op["k"] % len(names)], Segment(-50.0 - op["k"], -48.0 - op["k"]), NEW_LABEL)

    def _call(self, op, c, d, i, allowed):
        """returns the list of new derived objects"""
        pa = self.pa
        e = op["entry"]
        k = op.get("k", 0)
        out = []
        np.random.seed(op.get("seed", 0))
        w = 1 + k % 3
        with fastguard.guard():
            if e == "best":
                al = lib_call(e, c.get_best_alignment, d)
                al.compute_disorder(d)
                if hasattr(d, "alpha"):
                    al.gamma_k_disorder(d, "A")
                    al.gamma_k_disorder(d, None)
                al.check()
            elif e == "soft":
                al = lib_call(e, c.get_best_soft_alignment, d)
                al.compute_disorder(d)
                al.check()
            elif e == "fast":
                lib_call(e, c.get_fast_alignment, d, w)
            elif e == "first_window":
                win, _ = lib_call(e, c.get_first_window, d, w)
                out.append(win)
            elif e == "measure_window":
                lib_call(e, c.measure_best_window_size, d)
                allowed.add(("window", "inputs", i))
            elif e.startswith("gamma"):
                mode = e.split("-")[1]
                smp = pa.ShuffleContinuumSampler() if op.get("sampler") == "shuffle" else pa.StatisticalContinuumSampler()
                g = lib_call(e, c.compute_gamma, d, n_samples=1 + k % 3, precision_level=None, sampler=smp,
                             fast=(mode == "fast"), soft=(mode == "soft"),
                             ground_truth_annotators=None if k % 2 else list(c.annotators)[:2])
                if mode == "fast":
                    allowed.add(("window", "inputs", i))
                if hasattr(d, "alpha"):
                    lib_call(e + ":gamma_cat", lambda: g.gamma_cat)
                    lib_call(e + ":gamma_k", g.gamma_k, "A")
                _ = g.gamma, g.expected_disorder, g.observed_disorder
                out.append(g.chance_alignments[0].continuum)
            elif e in ("sampler-statistical", "sampler-shuffle"):
                smp = pa.StatisticalContinuumSampler() if e.endswith("statistical") else pa.ShuffleContinuumSampler(
                    pivot_type="float_pivot" if k % 2 else "int_pivot")
                lib_call(e + ":init", smp.init_sampling, c, None if k % 3 else list(c.annotators)[:2])
                for _ in range(2):
                    out.append(lib_call(e, lambda: smp.sample_from_continuum))
            elif e.startswith("cst"):
                extras = ["X_extra"] if k % 2 else None
                cst = lib_call(e + ":init", pa.CorpusShufflingTool, (k % 5) / 4.0, c, extras)
                if e == "cst-from-reference":
                    out.append(lib_call(e, cst.corpus_from_reference, 2))
                elif e == "cst-shuffle":
                    f = op.get("flags", 0)
                    out.append(lib_call(e, cst.corpus_shuffle, ["p", "q"] if k % 2 else 2, shift=bool(f & 1), false_pos=bool(f & 2),
                                        false_neg=bool(f & 4), split=bool(f & 8), cat_shuffle=bool(f & 16),
                                        include_ref=bool(f & 32) and list(c.annotators)[0] not in ("p", "q", "annotator_0", "annotator_1")))
                else:
                    corpus = cst.corpus_from_reference(2)
                    fn = {"cst-shift": cst.shift_shuffle, "cst-false-neg": cst.false_neg_shuffle, "cst-false-pos": cst.false_pos_shuffle,
                          "cst-category": cst.category_shuffle, "cst-splits": cst.splits_shuffle}[e]
                    lib_call(e, fn, corpus)
                    out.append(corpus)
            elif e == "unlabelled-statistical-sampler":
                # a fully unlabelled twin of the input (tracked as a derived object): the statistical sampler is not defined
                # on it - an exception is fine, a modified continuum is not
                twin = pa.Continuum()
                for a, u in c:
                    twin.add(a, u.segment, None)
                out.append(twin)
                self._twin_before = snap_continuum(twin)
                try:
                    smp = pa.StatisticalContinuumSampler()
                    smp.init_sampling(twin)
                    _ = smp.sample_from_continuum
                except Exception:
                    pass
                if snap_continuum(twin) != self._twin_before:
                    raise Violation("unlabelled-statistical-sampler:modifies:input", f"before {self._twin_before} after {snap_continuum(twin)}")
            elif e == "fast-failing-midway":
                # a dissimilarity whose category table lacks a label that only appears late: the computation fails after
                # several windows - the exception is expected, a damaged input is not
                narrow = oracle.build_dissim({"kind": "combined", "alpha": 1.0, "beta": 1.0, "delta": 1.0, "pos": None,
                                              "cat": {"kind": "precomputed", "cats": ["A", "B", "C", "D"], "matrix": [[0, 1, 1, 1], [1, 0, 1, 1], [1, 1, 0, 1], [1, 1, 1, 0]], "delta": 1.0}})
                late = c.copy()
                names = list(late.annotators)
                t0 = max(u.segment.end for _, u in late) + 50.0
                for j, a in enumerate(names):
                    late.add(a, pa.continuum.Segment(t0 + j, t0 + j + 2.0), "LATE")
                out.append(late)
                before_late = snap_continuum(late)
                for fn in (lambda: late.get_fast_alignment(narrow, 1), lambda: late.compute_gamma(narrow, n_samples=1, fast=True)):
                    try:
                        fn()
                    except Exception:
                        pass
                after_late = snap_continuum(late)
                if after_late[:4] != before_late[:4]:
                    raise Violation("fast-failing-midway:modifies:input", f"units before {len(before_late[1])} after {len(after_late[1])}")
            elif e == "copy":
                out.append(c.copy())
            elif e == "copy_flush":
                out.append(c.copy_flush())
            elif e == "merge":
                # every third time the other operand is a continuum without any annotator (nothing to merge in)
                if k % 3 == 0:
                    o = pa.Continuum()
                elif k % 3 == 1:
                    # an operand with an annotator that has no unit (held as a derived object: it must stay as it is)
                    o = self.inputs[k % len(self.inputs)].copy()
                    o.add_annotator("unitless")
                    out.append(o)
                else:
                    o = self.inputs[k % len(self.inputs)]
                out.append(c.merge(o, in_place=False))
                out.append(c + o)
            elif e == "getitem":
                a = list(c.annotators)[k % len(c.annotators)]
                out.append(c[a])
            else:
                raise ValueError(e)
        return out


ENTRIES = ["unlabelled-statistical-sampler", "fast-failing-midway", "best", "soft", "fast", "first_window", "measure_window", "gamma-exact", "gamma-fast", "gamma-soft",
           "sampler-statistical", "sampler-shuffle", "cst-from-reference", "cst-shuffle", "cst-shift", "cst-false-neg",
           "cst-false-pos", "cst-category", "cst-splits", "copy", "copy_flush", "merge", "getitem"]


@st.composite
def input_continua(draw):
    n = draw(st.integers(2, 3))
    names = draw(st.permutations(["a", "b", "c", "ref"]))[:n]
    units = []
    for a in names:
        for _ in range(draw(st.integers(1, 4))):
            s = draw(gen.dyadic(0, 30))
            d = draw(gen.dyadic(0.5, 8))
            units.append([a, s, s + d, draw(st.sampled_from(["A", "B", "C", "D"]))])
    return {"annotators": list(names), "units": units}


def make_machine():
    Base = make_machine_base()

    class NoMutationMachine(Base):
        make_interp = staticmethod(Interp)

        @rule(cont=input_continua())
        def new_input(self, cont):
            self.do({"op": "new_input", "cont": cont})

        @rule(k=st.integers(0, 30))
        def new_dissim(self, k):
            self.do({"op": "new_dissim", "k": k})

        @rule(entry=st.sampled_from(ENTRIES), i=st.integers(0, 2), d=st.integers(0, 3), k=st.integers(0, 30),
              seed=st.integers(0, 10 ** 6), sampler=st.sampled_from(["statistical", "shuffle"]), flags=st.integers(0, 63))
        def call(self, entry, i, d, k, seed, sampler, flags):
            self.do({"op": "call", "entry": entry, "i": i, "d": d, "k": k, "seed": seed, "sampler": sampler, "flags": flags})

        @rule(j=st.integers(0, 7), how=st.sampled_from(["add_new_label", "add_new_label", "remove", "add_annotator", "reset_bounds", "add_old_label"]),
              k=st.integers(0, 20))
        def mutate_result(self, j, how, k):
            self.do({"op": "mutate_result", "j": j, "how": how, "k": k})

        @rule(i=st.integers(0, 2), how=st.sampled_from(["add_new_label", "remove", "add_old_label"]), k=st.integers(0, 20))
        def mutate_input(self, i, how, k):
            self.do({"op": "mutate_input", "i": i, "how": how, "k": k})

    return NoMutationMachine


def check_log(case):
    it = Interp()
    for op in case["ops"]:
        it.apply(op)
    return it.info()


def subchecks(tier):
    return [
        Sub(name="machine", kind="machine", check=check_log, machine=make_machine(), steps=25, budget_s={"quick": 240.0, "thorough": 2400.0},
            examples={"quick": 45, "thorough": 160}, shards={"quick": 8, "thorough": 16}),
    ]
