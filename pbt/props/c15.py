"""C15 - the statistical sampler emits valid continua with the reference's statistics."""
import math

import numpy as np
from hypothesis import strategies as st

from ..common import gen, oracle
from ..common.core import Sub, Violation, lib_call
from ..common.env import import_library

ID = "C15"
ALPHA = 2e-10
RULE = ("'custom': (1-4 annotators; mean/std of unit count, gap, duration; 1-6 categories; weights None or a simplex point with zeros allowed; NumPy seed; M draws "
        "sized to yield >= ~2500 units). 'measured': (labelled reference continuum, ground-truth subset or None, seed). Per-draw oracle (every draw): non-empty, "
        "annotators == ground truth, every duration >= pyannote SEGMENT_PRECISION, categories within the reference's / supplied list (never a zero-weight one). "
        "Distribution oracle: an independent simulator of the stated generative model (|int(N)| units, first non-empty annotator >= 1 unit, gap ~ N, duration ~ |N| "
        "redrawn below the precision, category ~ weights) with its own Hypothesis-seeded numpy Generator; library vs simulator: z-tests on the mean and second moment "
        "of units per annotator, two-sample KS on durations and on sorted-order start-to-previous-end gaps, chi-square goodness of fit on categories, one-sample KS of "
        "durations against the analytic folded normal - each at level 2e-10. Measured mode: parameters re-estimated by the check; estimator variants the docs leave "
        "open (ddof 0/1, gaps with/without the leading zero and lead-in gaps) are all accepted: the library must agree with at least one. "
        "Non-trivial = >= 2 categories with unequal weights and gap parameters differing from duration parameters by >= 25%; distinct = canonical JSON.")
ASSUMPTIONS = ["statistical oracle: per-test false-alarm level 2e-10 (<= ~1e-9 per case)", "the degenerate parameter set mean duration = std = 0 is outside the domain",
               "scipy.stats p-values (asymptotic KS) are trusted at this level"]


def simulate(rng, gt_names, P, M, precision):
    """independent simulator: returns observables over M draws"""
    counts, durs, gaps, cats = [], [], [], []
    w = P["weights"]
    ncat = len(P["categories"])
    for _ in range(M):
        empty = True
        for a in gt_names:
            last = 0.0
            n = abs(int(rng.normal(P["n_mu"], P["n_sd"])))
            if empty:
                n = max(1, n)
            units = []
            for _u in range(n):
                start = last + rng.normal(P["g_mu"], P["g_sd"])
                d = abs(rng.normal(P["d_mu"], P["d_sd"]))
                while d < precision:
                    d = abs(rng.normal(P["d_mu"], P["d_sd"]))
                c = rng.choice(ncat, p=w) if w is not None else rng.integers(ncat)
                units.append((start, start + d, int(c)))
                last = start + d
            if units:
                empty = False
            observe(units, counts, durs, gaps, cats)
    return counts, durs, gaps, cats


def observe(units, counts, durs, gaps, cats):
    """observables are defined on the SORTED output (generation order is not observable)"""
    units = sorted(units)
    counts.append(len(units))
    prev_end = 0.0
    for (s, e, c) in units:
        durs.append(e - s)
        gaps.append(s - prev_end)
        cats.append(c)
        prev_end = e


def z_two(a, b):
    a, b = np.asarray(a, float), np.asarray(b, float)
    va, vb = a.var(ddof=1) / len(a), b.var(ddof=1) / len(b)
    if va + vb == 0:
        return 0.0 if a.mean() == b.mean() else math.inf
    return (a.mean() - b.mean()) / math.sqrt(va + vb)


def p_norm(z):
    from scipy.stats import norm
    return 2 * norm.sf(abs(z))


def compare(lib, sim, P, classes):
    """returns list of (test name, p-value)"""
    from scipy import stats
    out = []
    lc, ld, lg, lcat = lib
    sc, sd, sg, scat = sim
    out.append(("count-mean", p_norm(z_two(lc, sc))))
    out.append(("count-second-moment", p_norm(z_two(np.square(lc), np.square(sc)))))
    if len(ld) and len(sd):
        out.append(("durations-ks", stats.ks_2samp(ld, sd).pvalue))
        out.append(("gaps-ks", stats.ks_2samp(lg, sg).pvalue))
    return out


def category_test(lcat, P):
    from scipy import stats
    ncat = len(P["categories"])
    obs = np.bincount(np.asarray(lcat, int), minlength=ncat).astype(float)
    w = np.full(ncat, 1.0 / ncat) if P["weights"] is None else np.asarray(P["weights"], float)
    if np.any((w == 0) & (obs > 0)):
        return "zero-weight-category-drawn", 0.0
    keep = w > 0
    if keep.sum() < 2 or obs.sum() == 0:
        return "categories-chi2", 1.0
    exp = w[keep] / w[keep].sum() * obs[keep].sum()
    return "categories-chi2", float(stats.chisquare(obs[keep], exp).pvalue)


def folded_cdf(mu, sd, precision=0.0):
    """CDF of |N(mu, sd)| conditioned on being >= precision (values below the precision are redrawn)"""
    from scipy.stats import norm

    def F(x):
        x = np.asarray(x, dtype=float)
        return np.where(x < 0, 0.0, norm.cdf((x - mu) / sd) - norm.cdf((-x - mu) / sd))
    f0 = float(F(precision))
    return lambda x: np.clip((F(x) - f0) / (1.0 - f0), 0.0, 1.0)


def draw_library(smp, M, gt_names, cat_index, precision, allowed_cats):
    counts, durs, gaps, cats = [], [], [], []
    for i in range(M):
        s = lib_call("sample_from_continuum", lambda: smp.sample_from_continuum)
        if not s:
            raise Violation("empty-sample", f"draw {i}")
        if sorted(s.annotators) != sorted(gt_names):
            raise Violation("annotators-not-ground-truth", f"draw {i}: {list(s.annotators)} vs {sorted(gt_names)}")
        for a in gt_names:
            units = []
            for u in s[a]:
                d = u.segment.end - u.segment.start
                if d < precision:
                    raise Violation("duration-below-precision", f"draw {i}: {u}")
                if u.annotation not in allowed_cats:
                    raise Violation("foreign-category", f"draw {i}: {u.annotation!r} not in {sorted(allowed_cats)}")
                units.append((u.segment.start, u.segment.end, cat_index[u.annotation]))
            observe(units, counts, durs, gaps, cats)
        if not set(s.categories) <= set(allowed_cats):
            raise Violation("categories-outside-reference", f"{list(s.categories)}")
    return counts, durs, gaps, cats


def decide(lib, candidates, gt_names, M, precision, sim_seed, classes, what):
    """the library must be consistent with at least one candidate parameter set, observable by observable"""
    from scipy import stats
    rng = np.random.default_rng(sim_seed)
    best = {}
    for P in candidates:
        sim = simulate(rng, gt_names, P, M, precision)
        for name, p in compare(lib, sim, P, classes):
            best[name] = max(best.get(name, 0.0), p)
        name, p = category_test(lib[3], P)
        best[name] = max(best.get(name, 0.0), p)
        if P["d_sd"] > 0 and len(lib[1]) > 0:
            p = stats.kstest(lib[1], folded_cdf(P["d_mu"], P["d_sd"], precision)).pvalue
            best["durations-vs-folded-normal"] = max(best.get("durations-vs-folded-normal", 0.0), p)
    for name, p in best.items():
        if p < ALPHA:
            raise Violation(f"{what}:distribution:{name}", f"p={p:.3g} < {ALPHA} against every accepted parameter set ({len(candidates)} candidate(s)); "
                                                            f"library: {len(lib[0])} annotator-draws, {len(lib[1])} units, mean count {np.mean(lib[0]):.3f}, "
                                                            f"mean duration {np.mean(lib[1]) if lib[1] else float('nan'):.3f}, mean gap {np.mean(lib[2]) if lib[2] else float('nan'):.3f}")


def precision_value():
    import pyannote.core.segment as seg
    return float(seg.SEGMENT_PRECISION)


def check_custom(case):
    pa = import_library()
    P = dict(case["params"])
    names = case["annotators"]
    smp = pa.StatisticalContinuumSampler()
    if case.get("pre_init"):
        # history: the same sampler object was initialised before, with other parameters and explicit weights
        k0 = len(P["categories"])
        w0 = [0.9] + [0.1 / (k0 - 1)] * (k0 - 1) if k0 > 1 else [1.0]
        smp.init_sampling_custom(["zz", "yy"], 3.0, 1.0, 2.0, 1.0, 5.0, 1.0, list(P["categories"]), w0)
        _ = smp.sample_from_continuum
    lib_call("init_sampling_custom", smp.init_sampling_custom, list(names), P["n_mu"], P["n_sd"], P["g_mu"], P["g_sd"], P["d_mu"], P["d_sd"],
             list(P["categories"]), None if P["weights"] is None else list(P["weights"]))
    np.random.seed(case["seed"])
    per_draw = max(0.5, P["n_mu"]) * len(names)
    M = int(min(3000, max(150, 3000 / per_draw)))
    prec = precision_value()
    cat_index = {c: i for i, c in enumerate(P["categories"])}
    allowed = set(P["categories"])
    lib = draw_library(smp, M, sorted(names), cat_index, prec, allowed)
    classes = [f"k={len(names)}", "weights=None" if P["weights"] is None else "weights=given"] + (["sampler-initialised-before"] if case.get("pre_init") else [])
    decide(lib, [P], sorted(names), M, prec, case["sim_seed"], classes, "custom")
    w = P["weights"]
    unequal = w is not None and len({round(x, 6) for x in w}) > 1
    differs = abs(P["g_mu"] - P["d_mu"]) >= 0.25 * max(abs(P["d_mu"]), 1e-9) or abs(P["g_sd"] - P["d_sd"]) >= 0.25 * max(P["d_sd"], 1e-9)
    if w is not None and any(x == 0 for x in w):
        classes.append("zero-weight")
    if P["d_mu"] < 1e-3:
        classes.append("durations-near-segment-precision")
    return {"nontrivial": unequal and differs and len(lib[1]) >= 1500, "classes": classes}


def estimate_candidates(cont):
    per = oracle.per_annotator(cont)
    counts = [len(v) for v in per.values()]
    durs = [u[1] - u[0] for v in per.values() for u in v]
    labels = sorted({u[2] for v in per.values() for u in v})
    freq = [sum(1 for v in per.values() for u in v if u[2] == l) / len(durs) for l in labels]
    inner, lead = [], []
    for a, units in per.items():
        for x, y in zip(units, units[1:]):
            inner.append(y[0] - x[1])
        if units and units[0][0] > 0:
            lead.append(units[0][0])
    gap_sets = []
    for zero in (True, False):
        for with_lead in (True, False):
            g = ([0.0] if zero else []) + inner + (lead if with_lead else [])
            if g:
                gap_sets.append(g)
    cands = []
    for g in gap_sets:
        for ddof in (0, 1):
            def sd(x):
                return float(np.std(x, ddof=ddof)) if len(x) > ddof else 0.0
            cands.append({"n_mu": float(np.mean(counts)), "n_sd": sd(counts), "g_mu": float(np.mean(g)), "g_sd": sd(g),
                          "d_mu": float(np.mean(durs)), "d_sd": sd(durs), "categories": labels, "weights": freq})
    return cands


def check_measured(case):
    pa = import_library()
    cont = case["continuum"]
    c = oracle.build_continuum(cont)
    gt = case["ground_truth"]
    gt_names = sorted(cont["annotators"]) if gt is None else sorted(gt)
    smp = pa.StatisticalContinuumSampler()
    if case.get("pre_edit"):
        # history: the same sampler is first initialised on the reference as it was, the reference is then edited
        # in place (public add), and the sampler is initialised again on the same object
        from pyannote.core import Segment
        lib_call("init_sampling[before edit]", smp.init_sampling, c, None if gt is None else list(gt))
        _ = smp.sample_from_continuum
        for a, s_, e_, l_ in case["pre_edit"]:
            c.add(a, Segment(s_, e_), l_)
        cont = dict(cont, units=cont["units"] + case["pre_edit"])
    lib_call("init_sampling", smp.init_sampling, c, None if gt is None else list(gt))
    cands = estimate_candidates(cont)
    np.random.seed(case["seed"])
    per_draw = max(0.5, cands[0]["n_mu"]) * len(gt_names)
    M = int(min(3000, max(150, 3000 / per_draw)))
    prec = precision_value()
    labels = cands[0]["categories"]
    lib = draw_library(smp, M, gt_names, {l: i for i, l in enumerate(labels)}, prec, set(labels))
    classes = [f"k={len(gt_names)}", "gt-subset" if gt is not None else "gt-all"] + (["re-initialised-after-edit"] if case.get("pre_edit") else [])
    decide(lib, cands, gt_names, M, prec, case["sim_seed"], classes, "measured")
    w = cands[0]["weights"]
    unequal = len({round(x, 6) for x in w}) > 1
    differs = abs(cands[0]["g_mu"] - cands[0]["d_mu"]) >= 0.25 * cands[0]["d_mu"]
    return {"nontrivial": unequal and differs, "classes": classes}


@st.composite
def custom_cases(draw):
    k = draw(st.integers(1, 4))
    names = draw(st.permutations(["a", "b", "c", "d"]))[:k]
    ncat = draw(st.integers(1, 6))
    cats = ["c%d" % i for i in range(ncat)]
    if draw(st.booleans()) or ncat == 1:
        weights = None if draw(st.booleans()) else [1.0 / ncat] * ncat
    else:
        raw = [draw(st.integers(0, 6)) for _ in range(ncat)]
        if sum(raw) == 0:
            raw[0] = 1
        weights = [x / sum(raw) for x in raw]
    f2 = lambda lo, hi: st.floats(lo, hi, allow_nan=False).map(lambda x: round(x, 2))
    params = {"n_mu": draw(f2(0.5, 8)), "n_sd": draw(st.one_of(st.just(0.0), f2(0, 3))),
              "g_mu": draw(f2(-2, 20)), "g_sd": draw(st.one_of(st.just(0.0), f2(0, 6))),
              "d_mu": draw(f2(0.5, 20)), "d_sd": draw(st.one_of(st.just(0.0), f2(0, 5))),
              "categories": cats, "weights": weights}
    if draw(st.integers(0, 9)) == 0:
        # durations of the order of pyannote's segment precision (1e-6): the redraw-below-precision rule matters here
        params["d_mu"], params["d_sd"] = draw(st.sampled_from([0.0, 1e-6, 2e-6])), draw(st.sampled_from([1e-6, 2e-6, 5e-6]))
        params["g_mu"], params["g_sd"] = draw(st.sampled_from([1e-5, 1.0])), draw(st.sampled_from([0.0, 1e-6]))
    return {"annotators": list(names), "params": params, "seed": draw(st.integers(0, 2 ** 31 - 1)), "sim_seed": draw(st.integers(0, 2 ** 31 - 1)),
            "pre_init": draw(st.booleans())}


@st.composite
def measured_cases(draw):
    n = draw(st.integers(2, 4))
    names = ["a", "b", "c", "d"][:n]
    units = []
    nested = draw(st.booleans())
    for i, a in enumerate(names):
        if i == len(names) - 1 and len(names) > 2 and draw(st.integers(0, 3)) == 0:
            continue        # an annotator without any unit (it still counts in the statistics of the reference)
        t = draw(gen.dyadic(0, 6))
        if nested and i == 0:
            # a long unit with several short units nested inside it: "previous unit" and "latest end" differ here
            units.append([a, t, t + 100.0, "A"])
            for j in range(draw(st.integers(2, 4))):
                units.append([a, t + 10.0 * (j + 1), t + 10.0 * (j + 1) + draw(gen.dyadic(1, 6)), "B"])
            t += 110.0
        for _ in range(draw(st.integers(1, 8))):
            d = draw(gen.dyadic(0.5, 10))
            units.append([a, t, t + d, draw(st.sampled_from(["A", "A", "A", "B", "B", "C"]))])
            t += d + draw(gen.dyadic(-1, 12))
    gt = None
    if n > 2 and draw(st.booleans()):
        gt = sorted(draw(st.permutations(names))[:draw(st.integers(2, n))])
    names = list(names)
    pre = []
    if draw(st.integers(0, 2)) == 0:
        # a substantial edit: many long units with a new dominant category on one annotator
        a = draw(st.sampled_from(names))
        t = 200.0
        for _ in range(draw(st.integers(6, 12))):
            d = draw(gen.dyadic(20, 40))
            pre.append([a, t, t + d, "Z"])
            t += d + draw(gen.dyadic(30, 60))
    return {"continuum": {"annotators": names, "units": units}, "ground_truth": gt, "pre_edit": pre,
            "seed": draw(st.integers(0, 2 ** 31 - 1)), "sim_seed": draw(st.integers(0, 2 ** 31 - 1))}


def subchecks(tier):
    return [
        Sub(name="custom", check=check_custom, strategy=custom_cases(),
            examples={"quick": 40, "thorough": 300}, shards={"quick": 8, "thorough": 16}),
        Sub(name="measured", check=check_measured, strategy=measured_cases(),
            examples={"quick": 25, "thorough": 200}, shards={"quick": 8, "thorough": 16}),
    ]
