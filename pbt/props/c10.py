"""C10 - fast alignment terminates with a valid, never-better-than-optimal alignment."""
import math

import numpy as np
from hypothesis import strategies as st

from ..common import gen, oracle, preds, fastguard
from ..common.core import Sub, Violation, lib_call
from ..common.env import import_library

ID = "C10"
RULE = ("'fast': (continuum incl. 'crossed' clusters = near-coincident units with crossed labels/extents, nested/long units, empty annotators, unlabelled; "
        "dissimilarity; window size 1..ceil(units/annotators)+1). Oracle: termination by state repetition (a window iteration that removes no unit from the "
        "deterministic working copy proves a hang; no clock); result is a partition; carried disorders equal the reference recomputation; disorder >= optimum "
        "- tol (independent oracle when prod(k_i+1) <= 1300, else the library's best alignment); equality with the optimum when window*annotators >= units. "
        "'gamma': compute_gamma(fast=True) vs fast=False with the same seed: when best_window_size stays inf all disorders are identical; otherwise "
        "each is >= the exact optimum of the same continuum. Non-trivial = >= 2 window iterations and some unit of the first window ends after the window "
        "limit; distinct = distinct canonical JSON.")
ASSUMPTIONS = ["get_first_window / get_fast_alignment (public methods) are wrapped test-side to count iterations and remaining units",
               "gamma sub-check uses precision_level=None and small n_samples; numpy seed is part of the case"]


def window_max(cont):
    n = len(cont["annotators"])
    return math.ceil(len(cont["units"]) / n) + 1


def check_fast(case):
    cont, spec = case["continuum"], case["dissim"]
    w = 1 + case["window"] % window_max(cont)
    per = oracle.per_annotator(cont)
    n = len(per)
    nunits = sum(len(v) for v in per.values())
    c = oracle.build_continuum(cont)
    d = oracle.build_dissim(spec)
    with fastguard.guard():
        try:
            al = lib_call("fast-alignment", c.get_fast_alignment, d, w, allowed=(fastguard.Stall,))
        except fastguard.Stall as s:
            raise Violation("fast:non-termination", f"window_size={w}: {s}")
        iterations = fastguard.last_iterations()
    slots = preds.check_partition(al, per, "fast")
    preds.check_reported_disorders(al, slots, spec, per, "fast")
    lib = float(al.disorder)
    covers_all = w * n >= nunits
    classes = [f"n={n}", f"kind={spec['kind']}", f"shape={cont.get('shape')}", "window-covers-all" if covers_all else "window-partial"]
    if gen.continuum_product(cont) <= 1300:
        lst = [per[a] for a in sorted(per)]
        costs = oracle.all_tuple_costs(spec, lst)
        if n == 2:
            up = lo = oracle.optimum_assignment(spec, lst)
        elif nunits <= 9:
            up = lo = oracle.optimum_dp(lst, costs)
        else:
            up, lo = oracle.optimum_milp(lst, costs)
        mean = nunits / n
        ref_up, ref_lo = up / mean, lo / mean
        classes.append("independent-oracle")
    else:
        best = lib_call("best-alignment", c.get_best_alignment, d)
        ref_up = ref_lo = float(best.disorder)
        classes.append("library-best-as-reference")
    tol = oracle.REL_TOL * max(1.0, abs(ref_lo))
    if lib < ref_lo - tol:
        raise Violation("fast:below-optimum", f"fast disorder {lib} < optimum {ref_lo} (window {w})")
    if covers_all and lib > ref_up + tol:
        raise Violation("fast:not-optimal-with-full-window", f"fast disorder {lib} > optimum {ref_up} with window {w} x {n} >= {nunits} units")
    if lib > ref_up + tol:
        classes.append("fast>best")
    # non-triviality: first window has a unit reaching past the limit
    window, x_limit = c.get_first_window(d, w)
    reaching = any(u.segment.end > x_limit for _, u in window)
    if reaching:
        classes.append("unit-past-limit")
    classes.append("iterations>=2" if iterations >= 2 else "iterations=1")
    return {"nontrivial": iterations >= 2 and reaching, "classes": classes}


def check_gamma(case):
    pa = import_library()
    cont, spec = case["continuum"], case["dissim"]
    d = oracle.build_dissim(spec)
    sampler_kind = case["sampler"]

    def run(fast):
        c = oracle.build_continuum(cont)
        smp = pa.ShuffleContinuumSampler() if sampler_kind == "shuffle" else pa.StatisticalContinuumSampler()
        np.random.seed(case["seed"])
        with fastguard.guard():
            try:
                g = lib_call(f"compute_gamma(fast={fast})", c.compute_gamma, d, n_samples=case["n_samples"],
                             precision_level=None, sampler=smp, fast=fast, allowed=(fastguard.Stall,))
            except fastguard.Stall as s:
                raise Violation("fast-gamma:non-termination", str(s))
        return c, g
    cf, gf = run(True)
    ce, ge = run(False)
    classes = [f"sampler={sampler_kind}"]
    if cf.best_window_size == np.inf:
        classes.append("window=inf(exact fallback)")
        if not oracle.close(float(gf.observed_disorder), float(ge.observed_disorder), rel=1e-6):
            raise Violation("fast-gamma:inf-window-not-exact", f"observed {gf.observed_disorder} vs {ge.observed_disorder}")
        a = [float(x.disorder) for x in gf.chance_alignments]
        b = [float(x.disorder) for x in ge.chance_alignments]
        if len(a) != len(b) or any(not oracle.close(x, y, rel=1e-6) for x, y in zip(a, b)):
            raise Violation("fast-gamma:inf-window-not-exact", f"chance disorders {a} vs {b}")
    else:
        classes.append("window=finite")
        if float(gf.observed_disorder) < float(ge.observed_disorder) - oracle.REL_TOL * max(1, float(ge.observed_disorder)):
            raise Violation("fast-gamma:observed-below-optimum", f"{gf.observed_disorder} < {ge.observed_disorder}")
        for k, al in enumerate(gf.chance_alignments):
            best = al.continuum.get_best_alignment(d)
            if float(al.disorder) < float(best.disorder) - oracle.REL_TOL * max(1, float(best.disorder)):
                raise Violation("fast-gamma:chance-below-optimum", f"sample {k}: {al.disorder} < {best.disorder}")
    return {"nontrivial": True, "classes": classes}


CROSS_SPECS = [
    {"kind": "combined", "alpha": 1.0, "beta": 1.5, "delta": 1.0, "pos": None, "cat": None},
    {"kind": "combined", "alpha": 1.0, "beta": 2.0, "delta": 1.0, "pos": None, "cat": None},
    {"kind": "combined", "alpha": 0.5, "beta": 1.0, "delta": 1.0, "pos": None, "cat": None},
    {"kind": "combined", "alpha": 1.0, "beta": 1.0, "delta": 1.0, "pos": None, "cat": None},
    {"kind": "combined", "alpha": 1.0, "beta": 3.0, "delta": 2.0, "pos": None, "cat": None},
    {"kind": "abs", "delta": 1.0},
]


@st.composite
def crossed(draw):
    """clusters of near-coincident units whose labels (or extents) cross between annotators"""
    n = draw(st.integers(2, 4))
    names = ["a", "b", "c", "d"][:n]
    k = draw(st.integers(1, 3))
    units = []
    t = 0.0
    for _ in range(k):
        L = draw(gen.dyadic(2, 20))
        eps = draw(st.sampled_from([0.25, 0.5, 1.0, 2.0]))
        m = draw(st.integers(2, 3))          # units per annotator in the cluster
        labels = gen.LABELS_ABC[:m]
        for i, a in enumerate(names):
            rot = draw(st.integers(0, m - 1))
            for j in range(m):
                units.append([a, t + j * eps, t + L + j * eps, labels[(j + rot) % m]])
        t += L + draw(gen.dyadic(0, 30))
    return {"annotators": names, "units": units, "shape": "crossed"}


@st.composite
def fast_cases(draw):
    mode = draw(st.sampled_from(["crossed", "crossed", "general", "general", "general"]))
    if mode == "crossed":
        cont = draw(crossed())
        spec = draw(st.sampled_from(CROSS_SPECS))
        cs = {"continuum": cont, "dissim": spec}
    else:
        cs = draw(gen.continuum_and_spec(min_ann=2, max_ann=5, budget=4000, max_per=12, unlabelled_ratio=0.15,
                                         shapes=["random", "clusters", "clusters", "nested", "nested", "identical", "sparse", "coincide"]))
    cs["window"] = draw(st.integers(0, 40))
    return cs


@st.composite
def gamma_cases(draw):
    if draw(st.integers(0, 2)) == 0:
        # long sequential continua: the estimated best window is finite there (3 x >=30 or 4 x >=15 units)
        # a positional term is needed: without it nothing is pruned and 16^4 candidates reach the solver
        spec = draw(gen.dissim_specs(kinds=("combined", "combined", "pos"), equal_delta_only=True))
        if spec["kind"] == "combined" and spec["alpha"] < 1:
            spec["alpha"] = 1.0
        cs = {"continuum": draw(gen.sequence_continua(labels=gen.labels_for(spec), sizes=((3, 30, 33), (4, 15, 16)))), "dissim": spec}
    else:
        cs = draw(gen.continuum_and_spec(kinds=("combined", "pos", "abs"), min_ann=2, max_ann=3, budget=10 ** 6, max_per=14,
                                         shapes=["random", "clusters", "sparse", "sparse"]))
    # samplers need labelled, non-empty continua
    # shuffled copies of long annotations overlap heavily: the exact algorithm needs minutes there
    cs["sampler"] = "statistical" if cs["continuum"].get("shape") == "sequence" else draw(st.sampled_from(["statistical", "shuffle"]))
    cs["n_samples"] = draw(st.integers(1, 2 if cs["continuum"].get("shape") == "sequence" else 4))
    cs["seed"] = draw(st.integers(0, 2 ** 31 - 1))
    return cs


def subchecks(tier):
    return [
        Sub(name="fast", check=check_fast, strategy=fast_cases(),
            examples={"quick": 180, "thorough": 3000}, shards={"quick": 8, "thorough": 16}),
        Sub(name="gamma", check=check_gamma, strategy=gamma_cases(),
            examples={"quick": 25, "thorough": 400}, shards={"quick": 8, "thorough": 16}),
    ]
