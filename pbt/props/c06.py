"""C06 - seeded results are reproducible under any thread schedule."""
import json
import os
import subprocess
import sys
import tempfile

import numpy as np
from hypothesis import strategies as st

from ..common import gen, oracle, sched, fastguard
from ..common.core import Sub, Violation, lib_call
from ..common.env import import_library, VERIF, HarnessError

ID = "C06"
KEEP_CPU_COUNT = True
RULE = ("'schedules': case = (small labelled continuum, dissimilarity, sampler statistical | shuffle int | shuffle float, mode exact | fast | soft, n_samples, "
        "precision None | float, ground truth None or a subset given as list / set / frozenset / reversed list, NumPy seed) x schedule = (worker count 1..16, integer keys giving the order in which the submitted jobs are STARTED, per-job start "
        "delays 0-3 ms). The library's ThreadPoolExecutor is substituted test-side by a harness-owned executor (real Futures, real threads, jobs started in the "
        "generated order); further runs use the real pool with os.cpu_count patched to 1..16 workers, and a plain repetition in the same process. 'hashseed': the "
        "same batch of cases is evaluated in sub-processes with different PYTHONHASHSEED values. Oracle (relation between runs): observed disorder, the SEQUENCE of "
        "chance disorders, gamma, gamma-cat and every gamma-k are identical (band 1e-6 relative). Non-trivial = the generated start order differs from the "
        "submission order with >= 2 workers, or hash seeds differ; distinct = canonical JSON.")
ASSUMPTIONS = ["the schedule is owned at job granularity; interleavings inside native code (numba, CBC) run on real threads but are not enumerated",
               "a batch is released when the submitting thread first blocks on a result, or after 0.2 s of quiescence"]


def make_sampler(case):
    pa = import_library()
    k = case["sampler"]
    return pa.StatisticalContinuumSampler() if k == "statistical" else pa.ShuffleContinuumSampler(
        pivot_type="int_pivot" if k == "shuffle-int" else "float_pivot")


def run_gamma(case, smp=None):
    """one seeded gamma computation -> JSON-able numbers (smp: a sampler object re-used from earlier runs)"""
    pa = import_library()
    cont, spec = case["continuum"], case["dissim"]
    c = oracle.build_continuum(cont)
    d = oracle.build_dissim(spec)
    if smp is None:
        smp = make_sampler(case)
    gt = case.get("ground_truth")
    if gt is not None:
        # the caller's container type is the caller's business: an (unordered) set must give the same results
        gt = {"list": list, "set": set, "frozenset": frozenset, "reversed": lambda x: list(reversed(sorted(x)))}[case.get("gt_container", "list")](gt)
    np.random.seed(case["seed"])
    with fastguard.guard():
        g = c.compute_gamma(d, n_samples=case["n_samples"], precision_level=case["precision"], sampler=smp,
                            ground_truth_annotators=gt,
                            fast=(case["mode"] == "fast"), soft=(case["mode"] == "soft"))
    out = {"observed": float(g.observed_disorder), "chance": [float(a.disorder) for a in g.chance_alignments], "gamma": float(g.gamma)}
    if spec["kind"] == "combined":
        out["gamma_cat"] = float(g.gamma_cat)
        out["gamma_k"] = {str(l): float(g.gamma_k(l)) for l in c.categories}
    return out


def compare(ref, other, what):
    def same(a, b):
        return (a != a and b != b) or oracle.close(a, b, rel=1e-6)
    if not same(ref["observed"], other["observed"]):
        raise Violation(f"{what}:observed-disorder-differs", f"{ref['observed']} vs {other['observed']}")
    if len(ref["chance"]) != len(other["chance"]):
        raise Violation(f"{what}:number-of-samples-differs", f"{len(ref['chance'])} vs {len(other['chance'])}")
    for i, (a, b) in enumerate(zip(ref["chance"], other["chance"])):
        if not same(a, b):
            raise Violation(f"{what}:chance-disorder-sequence-differs", f"sample {i}: {a} vs {b} (sorted equal: {sorted(ref['chance']) == sorted(other['chance'])})")
    if not same(ref["gamma"], other["gamma"]):
        raise Violation(f"{what}:gamma-differs", f"{ref['gamma']} vs {other['gamma']}")
    if "gamma_cat" in ref:
        if not same(ref["gamma_cat"], other["gamma_cat"]):
            raise Violation(f"{what}:gamma-cat-differs", f"{ref['gamma_cat']} vs {other['gamma_cat']}")
        if list(ref["gamma_k"]) != list(other["gamma_k"]):
            raise Violation(f"{what}:gamma-k-categories-differ", f"{list(ref['gamma_k'])} vs {list(other['gamma_k'])}")
        for l in ref["gamma_k"]:
            if not same(ref["gamma_k"][l], other["gamma_k"][l]):
                raise Violation(f"{what}:gamma-k-differs", f"{l!r}: {ref['gamma_k'][l]} vs {other['gamma_k'][l]}")


def check_schedules(case):
    try:
        ref = run_gamma(case)
    except Exception as e:
        raise Violation(f"compute_gamma:raises:{type(e).__name__}", repr(e))
    # "however many times it is repeated in one process": half of the cases hand the SAME sampler object to every
    # later run (state carried by a re-used sampler must not matter), the others build a fresh one each time
    shared = make_sampler(case) if case.get("shared_sampler") else None
    classes = [f"mode={case['mode']}", f"sampler={case['sampler']}", "precision" if case["precision"] else "no-precision",
               "shared-sampler-object" if case.get("shared_sampler") else "fresh-sampler-per-run", f"shape={case['continuum'].get('shape')}",
               f"gt={case.get('gt_container') if case.get('ground_truth') else 'None'}"]
    nontrivial = False
    for i, s in enumerate(case["schedules"]):
        schedule = sched.Schedule(s["workers"], s["keys"], s["delays"])
        with sched.owned_schedule(schedule):
            other = lib_call("compute_gamma[owned schedule]", run_gamma, case, shared)
        compare(ref, other, "owned-schedule")
        if schedule.reordered and s["workers"] >= 2:
            nontrivial = True
            classes.append("reordered-start")
        classes.append(f"workers={'1' if s['workers'] == 1 else ('2-4' if s['workers'] <= 4 else '5-16')}")
    for w in case["pool_sizes"]:
        with sched.cpu_count(w):
            other = lib_call("compute_gamma[real pool]", run_gamma, case, shared)
        compare(ref, other, f"real-pool")
    again = lib_call("compute_gamma[repeat]", run_gamma, case, shared)
    compare(ref, again, "repetition")
    if len(ref["chance"]) > case["n_samples"]:
        classes.append("second-batch")
    return {"nontrivial": nontrivial, "classes": classes}


def check_hashseed(case):
    ref = [run_gamma(c) for c in case["cases"]]
    with tempfile.TemporaryDirectory(prefix="c06_") as d:
        path = os.path.join(d, "cases.json")
        with open(path, "w") as f:
            json.dump(case["cases"], f)
        procs = []
        for h in case["hashseeds"]:
            envv = dict(os.environ)
            envv["PYTHONHASHSEED"] = str(h)
            envv["PYTHONPATH"] = VERIF + os.pathsep + envv.get("PYTHONPATH", "")
            procs.append((h, subprocess.Popen([sys.executable, "-m", "pbt.hashworker", path], cwd=VERIF, env=envv,
                                              stdout=subprocess.PIPE, stderr=subprocess.PIPE, text=True)))
        for h, p in procs:
            out, err = p.communicate(timeout=900)
            line = [l for l in out.splitlines() if l.startswith("RESULT ")]
            if p.returncode != 0 or not line:
                raise HarnessError(f"hash worker failed (rc={p.returncode}): {err[-1500:]}")
            res = json.loads(line[-1][len("RESULT "):])
            if str(res["hashseed"]) != str(h):
                raise HarnessError(f"hash seed not applied: {res['hashseed']} vs {h}")
            for i, (a, b) in enumerate(zip(ref, res["results"])):
                compare(a, b, f"hashseed")
    return {"nontrivial": len(set(case["hashseeds"])) >= 2, "classes": [f"hashseeds={len(case['hashseeds'])}", f"cases={len(case['cases'])}"]}


@st.composite
def gamma_cases(draw):
    cs = draw(gen.continuum_and_spec(kinds=("combined", "combined", "combined", "pos", "precomputed"), min_ann=2, max_ann=4, budget=400, max_per=6,
                                     shapes=["random", "clusters", "sparse", "nested"]))
    cont = cs["continuum"]
    have = {u[0] for u in cont["units"]}
    for a in cont["annotators"]:
        if a not in have:
            cont["units"].append([a, 1.0, 3.0, cont["units"][0][3]])
    cs["sampler"] = draw(st.sampled_from(["statistical", "shuffle-int", "shuffle-float"]))
    if draw(st.integers(0, 5)) == 0:
        # crowded continuum: many annotators with long units on a short time line, so that the shuffle sampler runs out of
        # room for separated pivots and takes its fallback path
        k = draw(st.integers(4, 6))
        nm = ["a", "b", "c", "d", "e", "f"][:k]
        L = float(draw(st.sampled_from([30, 40, 60])))
        labs = gen.labels_for(cs["dissim"])
        us = []
        for a in nm:
            s0 = draw(gen.dyadic(0, L / 2))
            us.append([a, s0, s0 + L / 3 + draw(gen.dyadic(0, 4)), labs[draw(st.integers(0, len(labs) - 1))] or labs[0]])
        cont = cs["continuum"] = {"annotators": nm, "units": us, "shape": "crowded"}
        cs["sampler"] = draw(st.sampled_from(["shuffle-int", "shuffle-float"]))
    cs["mode"] = draw(st.sampled_from(["exact", "exact", "fast", "soft"]))
    cs["n_samples"] = draw(st.integers(2, 8))
    cs["precision"] = draw(st.sampled_from([None, None, 0.3, 0.5]))
    cs["seed"] = draw(st.integers(0, 2 ** 31 - 1))
    names = sorted(cont["annotators"])
    if draw(st.booleans()):
        k = draw(st.integers(2, len(names)))
        cs["ground_truth"] = sorted(draw(st.permutations(names))[:k])
        cs["gt_container"] = draw(st.sampled_from(["list", "set", "frozenset", "reversed"]))
    else:
        cs["ground_truth"] = None
    return cs


@st.composite
def schedule_cases(draw):
    cs = draw(gamma_cases())
    scheds = []
    for _ in range(draw(st.integers(2, 4))):
        scheds.append({"workers": draw(st.sampled_from([1, 2, 2, 3, 4, 8, 16])),
                       "keys": draw(st.lists(st.integers(0, 1000), min_size=3, max_size=12)),
                       "delays": draw(st.lists(st.integers(0, 3), min_size=1, max_size=6))})
    cs["shared_sampler"] = draw(st.booleans())
    if cs["mode"] == "fast" and draw(st.booleans()):
        # long, overlapping sequential annotations: fast-gamma's estimated window is finite there
        spec = draw(gen.dissim_specs(kinds=("combined", "combined", "pos"), equal_delta_only=True))
        if spec["kind"] == "combined" and spec["alpha"] < 1:
            spec["alpha"] = 1.0
        cs["dissim"] = spec
        cs["continuum"] = draw(gen.sequence_continua(labels=gen.labels_for(spec), sizes=((3, 30, 36), (4, 15, 18))))
        cs["sampler"] = "statistical"
        cs["n_samples"] = draw(st.integers(2, 4))
        cs["precision"] = None
        cs["ground_truth"] = None
    cs["schedules"] = scheds
    cs["pool_sizes"] = draw(st.lists(st.sampled_from([1, 2, 3, 5, 16]), min_size=1, max_size=2, unique=True))
    return cs


@st.composite
def hashseed_cases(draw):
    cases = draw(st.lists(gamma_cases(), min_size=4, max_size=6))
    # hash-seed sensitive ingredients are forced into half of the batch: an unordered container of annotator names
    # handed to the shuffle sampler (which picks annotators by position)
    for i, cs in enumerate(cases):
        if i % 2 == 0:
            names = sorted(cs["continuum"]["annotators"])
            cs["ground_truth"] = names
            cs["gt_container"] = "set" if i % 4 == 0 else "frozenset"
            cs["sampler"] = "shuffle-int" if i % 4 == 0 else "shuffle-float"
    seeds = draw(st.lists(st.integers(1, 2 ** 31 - 1), min_size=3, max_size=3, unique=True))
    return {"cases": cases, "hashseeds": seeds}


def subchecks(tier):
    return [
        Sub(name="schedules", check=check_schedules, strategy=schedule_cases(),
            examples={"quick": 45, "thorough": 400}, shards={"quick": 8, "thorough": 16}),
        Sub(name="hashseed", check=check_hashseed, strategy=hashseed_cases(),
            examples={"quick": 1, "thorough": 6}, shards={"quick": 2, "thorough": 4}, budget_s={"quick": 400.0, "thorough": 3000.0}),
    ]
