"""C17 - alignment validity checks accept exactly partitions and covers."""
import itertools
import random

from hypothesis import strategies as st

from ..common import gen, oracle
from ..common.core import Sub, Violation
from ..common.env import import_library

ID = "C17"
RULE = ("'edited': (continuum 2-5 annotators; a generated valid partition of it; a list of edits: drop a unit, drop a unitary alignment, duplicate a unit into "
        "another unitary alignment, move a unit into another annotator's slot, duplicate a whole unitary alignment, add a covering extra unitary alignment; "
        "permutation of the unitary alignments and of the slots inside each; an exact affine time map from a fixed list - offsets up to 2^33, scales 2^-10..2^20 (durations stay above pyannote's 1e-6 segment precision) - so that "
        "distinct units may agree to 6+ significant digits). 'grid': ALL ordered lists of 1..4 unitary alignments over a 2x2 continuum "
        "(exhaustive, 4680 alignments) + the empty list. Oracle: occurrence count of every (annotator, unit) of the continuum among the non-empty slots: "
        "Alignment.check (explicit continuum, attached continuum, check_validity=True at construction) returns iff every count == 1 and raises SetPartitionError "
        "iff some count is 0 or >= 2; SoftAlignment.check returns iff every count >= 1, raises SetPartitionError when a unit is missing; verdicts are identical "
        "under permutation. Non-trivial = invalid by exactly one unit, or valid but permuted/edited; distinct = canonical JSON.")
ASSUMPTIONS = ["a tuple foreign to the continuum (unit under another annotator) is generated at most once per alignment; for soft alignments containing a foreign "
               "tuple only 'a missing unit must make the check fail (any exception)' is asserted",
               "unitary alignments of unequal length (documented ValueError) are not generated"]


def _classes():
    from pygamma_agreement.alignment import SoftAlignment, SetPartitionError
    return SoftAlignment, SetPartitionError


def verdict(fn):
    _, SetPartitionError = _classes()
    try:
        fn()
        return "ok"
    except SetPartitionError:
        return "partition-error"
    except Exception as e:  # noqa
        return f"other:{type(e).__name__}"


def evaluate(cont, groups, perm_seed):
    """groups: list of slot lists [(annotator_of_slot, (owner_annotator, unit) | None)]"""
    pa = import_library()
    from pyannote.core import Segment
    SoftAlignment, SetPartitionError = _classes()
    per = oracle.per_annotator(cont)
    names = sorted(per)
    c = oracle.build_continuum(cont)
    universe = {(a, u) for a in names for u in per[a]}
    cnt = {}
    foreign = {}
    for g in groups:
        for a, u in zip(names, g):
            if u is None:
                continue
            if (a, u) in universe:
                cnt[(a, u)] = cnt.get((a, u), 0) + 1
            else:
                foreign[(a, u)] = foreign.get((a, u), 0) + 1
    counts = [cnt.get(t, 0) for t in sorted(universe, key=lambda t: (t[0], oracle.unit_key(t[1])))]
    valid = all(k == 1 for k in counts)
    covered = all(k >= 1 for k in counts)
    classes = []
    if any(v > 1 for v in foreign.values()):
        return {"nontrivial": False, "classes": ["ambiguous-repeated-foreign-tuple"]}

    def build(seed, soft):
        rnd = random.Random(seed)
        order = list(range(len(groups)))
        if seed:
            rnd.shuffle(order)
        uas = []
        for gi in order:
            tup = [(a, None if u is None else pa.Unit(Segment(u[0], u[1]), u[2])) for a, u in zip(names, groups[gi])]
            if seed:
                rnd.shuffle(tup)
            uas.append(pa.UnitaryAlignment(tup))
        return uas
    expect = "ok" if valid else "partition-error"
    for seed in (0, perm_seed + 1):
        uas = build(seed, False)
        lab = "permuted" if seed else "plain"
        v1 = verdict(lambda: pa.Alignment(uas).check(c))
        v2 = verdict(lambda: pa.Alignment(uas, continuum=c).check())
        v3 = verdict(lambda: pa.Alignment(uas, continuum=c, check_validity=True))
        v4 = verdict(lambda: pa.Alignment(uas, continuum=c, check_validity=True, disorder=0.0))      # every constructor argument
        v5 = verdict(lambda: pa.Alignment(uas, c, True, 1.25))
        for name, v in (("explicit", v1), ("attached", v2), ("constructor", v3), ("constructor+disorder=0", v4), ("constructor+disorder", v5)):
            if v != expect:
                sig = f"check[{name}]:" + ("accepts-invalid" if v == "ok" else ("rejects-valid" if expect == "ok" else f"wrong-error:{v}"))
                raise Violation(sig, f"{lab}: verdict {v}, expected {expect}; counts {counts} groups {groups}")
        # soft
        s1 = verdict(lambda: SoftAlignment(uas).check(c))
        s2 = verdict(lambda: SoftAlignment(uas, continuum=c).check())
        s3 = verdict(lambda: SoftAlignment(uas, continuum=c, check_validity=True))
        s4 = verdict(lambda: SoftAlignment(uas, continuum=c, check_validity=True, disorder=0.0))
        for name, v in (("explicit", s1), ("attached", s2), ("constructor", s3), ("constructor+disorder=0", s4)):
            if foreign:
                if not covered and v == "ok":
                    raise Violation(f"soft-check[{name}]:accepts-invalid", f"{lab}: counts {counts} groups {groups}")
            else:
                exp = "ok" if covered else "partition-error"
                if v != exp:
                    sig = f"soft-check[{name}]:" + ("accepts-invalid" if v == "ok" else ("rejects-valid" if exp == "ok" else f"wrong-error:{v}"))
                    raise Violation(sig, f"{lab}: verdict {v}, expected {exp}; counts {counts} groups {groups}")
    # the explicit continuum argument is what counts, even a continuum without any unit (every alignment without a
    # repeated tuple is then vacuously a partition of it)
    if groups and not foreign and all(k <= 1 for k in counts):
        empty = pa.Continuum()
        for a in names:
            empty.add_annotator(a)
        uas = build(0, False)
        for name, v in (("explicit-empty-continuum", verdict(lambda: pa.Alignment(uas).check(empty))),
                        ("explicit-empty-continuum-overrides-attached", verdict(lambda: pa.Alignment(uas, continuum=c).check(empty)))):
            if v != "ok":
                raise Violation(f"check[{name}]:rejects-valid", f"verdict {v} against a continuum without units; groups {groups}")
    # history on the SAME continuum object: after the checks above, one unit is removed in place (from the continuum and
    # from the alignment) and the verdicts must follow
    if groups and not foreign:
        target = next(((a, u) for g in groups for a, u in zip(names, g) if u is not None), None)
        if target is not None and sum(len(v) for v in per.values()) > 1:
            a0, u0 = target
            c.remove(a0, pa.Unit(Segment(u0[0], u0[1]), u0[2]))
            groups2 = [[None if (a == a0 and u == u0) else u for a, u in zip(names, g)] for g in groups]
            groups2 = [g for g in groups2 if any(x is not None for x in g)]
            cnt2 = {}
            for g in groups2:
                for a, u in zip(names, g):
                    if u is not None:
                        cnt2[(a, u)] = cnt2.get((a, u), 0) + 1
            universe2 = universe - {(a0, u0)}
            valid2 = all(cnt2.get(t, 0) == 1 for t in universe2)
            covered2 = all(cnt2.get(t, 0) >= 1 for t in universe2)
            if groups2:
                uas2 = [pa.UnitaryAlignment([(a, None if u is None else pa.Unit(Segment(u[0], u[1]), u[2])) for a, u in zip(names, g)]) for g in groups2]
                for name, v, exp in (("explicit", verdict(lambda: pa.Alignment(uas2).check(c)), "ok" if valid2 else "partition-error"),
                                     ("constructor", verdict(lambda: pa.Alignment(uas2, continuum=c, check_validity=True)), "ok" if valid2 else "partition-error"),
                                     ("soft-explicit", verdict(lambda: SoftAlignment(uas2).check(c)), "ok" if covered2 else "partition-error")):
                    if v != exp:
                        raise Violation(f"check[{name}]:after-in-place-remove:" + ("accepts-invalid" if v == "ok" else "rejects-valid-or-wrong-error"),
                                        f"verdict {v}, expected {exp}; removed {a0}->{u0}; groups {groups2}")
                classes.append("re-checked-after-remove")
    off_by_one = sum(abs(k - 1) for k in counts) == 1
    classes.append("valid" if valid else ("cover-only" if covered else "missing-unit"))
    if off_by_one:
        classes.append("invalid-by-exactly-one")
    if foreign:
        classes.append("foreign-tuple")
    if not groups:
        classes.append("empty-alignment")
    return {"nontrivial": off_by_one or valid, "classes": classes}


# exact affine time maps (power-of-two scales, offsets with few significant bits): units that are distinct stay distinct in float64, but
# their bounds may agree to 6+ significant digits (large timestamps, near-coincident bounds) - the printable form of a unit is not its identity
TIME_MAPS = [[0.0, 1.0], [0.0, 1.0], [5e7, 1.0], [float(2 ** 33), 1.0], [3600.0, 2.0 ** -10], [1e6, 2.0 ** -10], [-5e7, 1.0], [0.0, 2.0 ** 20]]


def _time_mapped(cont, tmap):
    shift, scale = tmap
    if shift == 0.0 and scale == 1.0:
        return cont
    units = [[a, shift + s * scale, shift + e * scale, l] for a, s, e, l in cont["units"]]
    assert len({(a, s, e, l) for a, s, e, l in units}) == len(units) and all(s < e for _, s, e, _ in units), "time map must be injective"
    return dict(cont, units=units)


def check_edited(case):
    cont = _time_mapped(case["continuum"], case.get("tmap", [0.0, 1.0]))
    per = oracle.per_annotator(cont)
    names = sorted(per)
    rnd = random.Random(case["seed"])
    # a valid partition: shuffle each annotator's units, pad with None at random places, zip
    cols = []
    depth = max(len(v) for v in per.values()) + case["pad"]
    for a in names:
        col = list(per[a]) + [None] * (depth - len(per[a]))
        rnd.shuffle(col)
        cols.append(col)
    groups = [list(row) for row in zip(*cols) if any(x is not None for x in row)]
    edits = []
    for e in case["edits"]:
        kind, i, j, k = e
        if not groups:
            break
        g = groups[i % len(groups)]
        real = [x for x in range(len(g)) if g[x] is not None]
        if kind == "drop_unit" and real:
            g[real[j % len(real)]] = None
            if all(x is None for x in g):
                groups.remove(g)
        elif kind == "drop_group":
            groups.remove(g)
        elif kind == "dup_unit" and real and len(groups) > 1:
            x = real[j % len(real)]
            h = groups[k % len(groups)]
            if h is not g:
                h[x] = g[x]
        elif kind == "move_unit" and real:
            x = real[j % len(real)]
            y = k % len(g)
            if y != x and g[y] is None and not any((names[y], g[x]) == (names[y], o[y]) for o in groups):
                g[y] = g[x]
                g[x] = None
        elif kind == "dup_group":
            groups.append(list(g))
        elif kind == "extra_cover" and real:
            x = real[j % len(real)]
            h = [None] * len(g)
            h[x] = g[x]
            groups.append(h)
        else:
            continue
        edits.append(kind)
    info = evaluate(cont, groups, case["seed"])
    info["classes"] = info["classes"] + [f"n={len(names)}"] + sorted(set(edits))
    if case.get("tmap", [0.0, 1.0]) != [0.0, 1.0]:
        info["classes"].append("time-mapped")
    return info


GRID_CONT = {"annotators": ["a", "b"], "units": [["a", 0.0, 1.0, "A"], ["a", 2.0, 3.0, "B"], ["b", 0.0, 1.0, "A"], ["b", 0.5, 3.0, "B"]]}


def grid_cases():
    per = oracle.per_annotator(GRID_CONT)
    ua = [(x, y) for x in list(range(2)) + [None] for y in list(range(2)) + [None] if not (x is None and y is None)]

    def it():
        yield {"grid": []}
        for n in range(1, 5):
            for combo in itertools.product(range(len(ua)), repeat=n):
                yield {"grid": [list(ua[i]) for i in combo]}
    return it


def check_grid(case):
    per = oracle.per_annotator(GRID_CONT)
    groups = [[None if x is None else per["a"][x], None if y is None else per["b"][y]] for x, y in case["grid"]]
    return evaluate(GRID_CONT, groups, 7)


@st.composite
def edited_cases(draw):
    cont = draw(gen.continua(min_ann=2, max_ann=5, budget=10 ** 9, max_per=5))
    kinds = st.sampled_from(["drop_unit", "drop_group", "dup_unit", "move_unit", "dup_group", "extra_cover"])
    edits = draw(st.lists(st.tuples(kinds, st.integers(0, 20), st.integers(0, 20), st.integers(0, 20)), min_size=0, max_size=3))
    return {"continuum": cont, "edits": [list(e) for e in edits], "seed": draw(st.integers(0, 10 ** 6)), "pad": draw(st.integers(0, 2)),
            "tmap": draw(st.sampled_from(TIME_MAPS))}


def subchecks(tier):
    return [
        Sub(name="edited", check=check_edited, strategy=edited_cases(),
            examples={"quick": 500, "thorough": 10000}, shards={"quick": 8, "thorough": 16}),
        Sub(name="grid", kind="enum", check=check_grid, cases=grid_cases(), exhaustive=True,
            shards={"quick": 8, "thorough": 16}),
    ]
