"""C03 - disorder values follow the definition."""
import math

from hypothesis import strategies as st

from ..common import gen, oracle, preds, fastguard
from ..common.core import Sub, Violation, lib_call
from ..common.env import import_library

ID = "C03"
RULE = ("(a) 'returned': (continuum, dissimilarity, mode best|fast(window)|soft) -> the alignment's carried disorder, its per-unitary disorders and "
        "Alignment.compute_disorder all equal a float64 re-implementation of the definition (mean over the n(n-1)/2 pairs, delta_empty for any pair with "
        "an empty slot; sum / mean units per annotator). (b) 'handbuilt': arbitrary groupings of a continuum's units into unitary alignments with any "
        "empty-slot pattern (partitions and non-partitions), with or without the continuum attached, slot order inside every n_tuple and the order of "
        "unitary alignments permuted; Alignment / SoftAlignment / UnitaryAlignment.compute_disorder against the same reference. "
        "Non-trivial = (n != 3 or >= 1 empty slot) and >= 2 unitary alignments; distinct = distinct canonical JSON.")
ASSUMPTIONS = [
    "UnitaryAlignment.compute_disorder returns the disorder of the one-element alignment made of that unitary alignment, i.e. its unitary disorder "
    "divided by (real units / annotators) - this reading is pinned by the repository's own test_unitary_alignment",
    "alignments without an attached continuum are generated without repeated units, so 'mean number of units per annotator' is unambiguous",
    "tolerance 2e-5 relative; times float32-exact",
]


def _window_max(cont):
    n = len(cont["annotators"])
    return math.ceil(len(cont["units"]) / n) + 1


def check_returned(case):
    with oracle.scale_floor(case["dissim"]["delta"]):
        return _check_returned(case)


def _check_returned(case):
    cont, spec, mode = case["continuum"], case["dissim"], case["mode"]
    per = oracle.per_annotator(cont)
    c = oracle.build_continuum(cont)
    d = oracle.build_dissim(spec)
    classes = [f"mode={mode}", f"n={len(per)}", f"kind={spec['kind']}"]
    if mode == "best":
        al = lib_call("best-alignment", c.get_best_alignment, d)
    elif mode == "soft":
        al = lib_call("soft-alignment", c.get_best_soft_alignment, d)
    else:
        w = 1 + case["window"] % _window_max(cont)
        with fastguard.guard():
            try:
                al = lib_call("fast-alignment", c.get_fast_alignment, d, w, allowed=(fastguard.Stall,))
            except fastguard.Stall:
                return {"nontrivial": False, "classes": classes + ["fast-stall(C10's concern)"]}
    slots = preds.alignment_structure(al, per, mode)
    ref_total = preds.check_reported_disorders(al, slots, spec, per, f"{mode}:carried")
    # recomputation from the units
    got = float(lib_call("compute_disorder", al.compute_disorder, d))
    if not oracle.close(got, ref_total):
        raise Violation(f"{mode}:recomputed-disorder-mismatch", f"recomputed {got} reference {ref_total}")
    preds.check_reported_disorders(al, slots, spec, per, f"{mode}:after-recompute")
    empties = sum(1 for sl in slots for s in sl if s is None)
    if empties:
        classes.append("has-empty-slot")
    return {"nontrivial": (len(per) != 3 or empties > 0) and len(slots) >= 2, "classes": classes}


def check_handbuilt(case):
    if case.get("shift"):
        # times far from 0 and not float32-exact: references use the float32-rounded (start, end, duration) triple
        sh = case["shift"]
        cont = case["continuum"]
        f = 1.000123      # non-dyadic stretch: durations are then no multiples of the float32 spacing at that magnitude
        case = dict(case, continuum=dict(cont, units=[[a, s * f + sh, e * f + sh, l] for a, s, e, l in cont["units"]]))
        with oracle.scale_floor(case["dissim"]["delta"]), oracle.f32_inputs():
            info = _check_handbuilt(case)
        info["classes"] = list(info["classes"]) + ["large-inexact-times"]
        return info
    with oracle.scale_floor(case["dissim"]["delta"]):
        return _check_handbuilt(case)


def _check_handbuilt(case):
    pa = import_library()
    from pyannote.core import Segment
    cont, spec = case["continuum"], case["dissim"]
    per = oracle.per_annotator(cont)
    names = sorted(per)
    n = len(names)
    c = oracle.build_continuum(cont)
    d = oracle.build_dissim(spec)
    attach = case["attach"]
    # decode groups -> slots (sorted annotator order)
    groups = []
    used = set()
    for g in case["groups"]:
        slots = []
        for a, idx in zip(names, g):
            if idx is None or not per[a]:
                slots.append(None)
            else:
                i = idx % len(per[a])
                if not attach and (a, i) in used:
                    slots.append(None)   # no repeats without a continuum (see ASSUMPTIONS)
                else:
                    used.add((a, i))
                    slots.append(per[a][i])
        if all(s is None for s in slots):
            continue
        groups.append(slots)
    if not groups:
        return {"nontrivial": False, "classes": ["degenerate-empty"]}
    cats_universe = gen.spec_categories(spec)

    def build(perm_seed, soft=False):
        import random
        rnd = random.Random(perm_seed)
        uas = []
        order = list(range(len(groups)))
        if perm_seed:
            rnd.shuffle(order)
        for gi in order:
            tup = [(a, None if s is None else pa.Unit(Segment(s[0], s[1]), s[2])) for a, s in zip(names, groups[gi])]
            if perm_seed:
                rnd.shuffle(tup)
            uas.append(pa.UnitaryAlignment(tup))
        cls = _soft_cls() if soft else pa.Alignment
        return cls(uas, continuum=c if attach else None), order

    ref_u = [oracle.ref_unitary_disorder(spec, g) for g in groups]
    real = sum(1 for g in groups for s in g if s is not None)
    mean_units = (len(cont["units"]) / n) if attach else (real / n)
    ref_total = sum(ref_u) / mean_units
    results = []
    for soft in (False, True):
        for perm_seed in (0, case["perm"] + 1):
            al, order = build(perm_seed, soft)
            lab = ("soft" if soft else "plain") + (":permuted" if perm_seed else "")
            got = float(lib_call(f"compute_disorder[{lab}]", al.compute_disorder, d))
            if not oracle.close(got, ref_total):
                raise Violation(f"handbuilt:{lab}:disorder-mismatch", f"got {got} reference {ref_total} groups {groups}")
            for k, gi in enumerate(order):
                gu = float(al.unitary_alignments[k].disorder)
                if not oracle.close(gu, ref_u[gi]):
                    raise Violation(f"handbuilt:{lab}:unitary-disorder-mismatch", f"got {gu} reference {ref_u[gi]} slots {groups[gi]}")
            if not oracle.close(float(al.disorder), ref_total):
                raise Violation(f"handbuilt:{lab}:disorder-property-mismatch", f"{float(al.disorder)} vs {ref_total}")
            results.append(got)
    if any(not oracle.close(r, results[0], rel=1e-6) for r in results):
        raise Violation("handbuilt:order-dependent", f"{results}")
    # single unitary alignments (one-element alignment reading, see ASSUMPTIONS)
    for gi, g in enumerate(groups[:3]):
        tup = [(a, None if s is None else pa.Unit(Segment(s[0], s[1]), s[2])) for a, s in zip(names, g)]
        k = sum(1 for s in g if s is not None)
        if cats_universe is None and any(s is not None and s[2] is None for s in g) and any(s is not None and s[2] is not None for s in g):
            pass
        got = float(lib_call("unitary.compute_disorder", pa.UnitaryAlignment(tup).compute_disorder, d))
        ref = ref_u[gi] / (k / n)
        if not oracle.close(got, ref):
            raise Violation("handbuilt:unitary-compute-disorder-mismatch", f"got {got} reference {ref} slots {g}")
    empties = sum(1 for g in groups for s in g if s is None)
    classes = [f"n={n}", f"kind={spec['kind']}", "attached" if attach else "detached"]
    if empties:
        classes.append("has-empty-slot")
    cnt = oracle.occurrence_counts(groups, names)
    is_partition = all(cnt.get((a, u), 0) == 1 for a in names for u in per[a])
    classes.append("partition" if is_partition else "non-partition")
    return {"nontrivial": (n != 3 or empties > 0) and len(groups) >= 2, "classes": classes}


@st.composite
def returned_cases(draw):
    cs = draw(gen.continuum_and_spec(min_ann=2, max_ann=5, budget=2500, max_per=10, unlabelled_ratio=0.1, extreme=True))
    cs["mode"] = draw(st.sampled_from(["best", "fast", "soft", "fast"]))
    cs["window"] = draw(st.integers(0, 50))
    return cs


@st.composite
def handbuilt_cases(draw):
    cs = draw(gen.continuum_and_spec(min_ann=2, max_ann=5, budget=10 ** 9, max_per=6, unlabelled_ratio=0.1, extreme=True))
    n = len(cs["continuum"]["annotators"])
    slot = st.one_of(st.none(), st.integers(0, 30), st.integers(0, 30))
    cs["groups"] = draw(st.lists(st.lists(slot, min_size=n, max_size=n), min_size=1, max_size=8))
    cs["attach"] = draw(st.booleans())
    cs["perm"] = draw(st.integers(0, 10 ** 6))
    cs["shift"] = draw(st.sampled_from([None, None, None, 12345.678, 98765.4321, 1234.5678]))
    return cs


def subchecks(tier):
    return [
        Sub(name="returned", check=check_returned, strategy=returned_cases(),
            examples={"quick": 200, "thorough": 3000}, shards={"quick": 8, "thorough": 16}),
        Sub(name="handbuilt", check=check_handbuilt, strategy=handbuilt_cases(),
            examples={"quick": 250, "thorough": 5000}, shards={"quick": 8, "thorough": 16}),
    ]


def _soft_cls():
    from pygamma_agreement.alignment import SoftAlignment
    return SoftAlignment
