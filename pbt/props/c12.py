"""C12 - gamma-cat and gamma-k follow their definition."""
import math

import numpy as np
from hypothesis import strategies as st

from ..common import gen, oracle, preds
from ..common.core import Sub, Violation, lib_call
from ..common.env import import_library

ID = "C12"
RULE = ("'disorder': (continuum, combined dissimilarity with every categorical component / alpha / delta_empty, alignment = best | soft | arbitrary hand-built "
        "grouping with any empty-slot pattern, category = each label present, one absent label, None) -> Alignment.gamma_k_disorder equals a re-implementation "
        "of the stated definition whenever >= 1 real pair is counted and the total weight is positive (degenerate alignments must not raise and are counted "
        "as trivial). 'results': small compute_gamma runs -> gamma_cat / gamma_k(c) equal 1 - observed/mean(chance) recomputed with the re-implementation, "
        "are <= 1, and equal 1 for identical annotators; non-combined dissimilarities must be refused (exception, never a number). "
        "Non-trivial = some unitary alignment has >= 3 real units, or an empty slot beside a real pair, or the category is absent; distinct = canonical JSON.")
ASSUMPTIONS = ["positional dissimilarity inside the confidence weight includes delta_empty (it is the combined dissimilarity's positional component)",
               "conventions for alignments in which no real pair is counted are not part of the statement and are not compared"]


def ref_gamma_k_disorder(spec, slots_list, category):
    """returns (value or None when degenerate, counted_real_pairs)"""
    delta = float(spec["delta"])
    alpha = float(spec["alpha"])
    pos_spec = {"kind": "pos", "delta": delta}
    cat_spec = {"kind": "combined", "alpha": 0.0, "beta": 1.0, "delta": delta, "pos": None, "cat": spec["cat"]}
    pos = oracle.ref_d(pos_spec)
    cat = oracle.ref_d(cat_spec)
    num = 0.0
    den = 0.0
    counted = 0
    for slots in slots_list:
        k = sum(1 for s in slots if s is not None)
        for i in range(len(slots)):
            for j in range(i + 1, len(slots)):
                u, v = slots[i], slots[j]
                if category is not None:
                    if not ((u is not None and u[2] == category) or (v is not None and v[2] == category)):
                        continue
                if u is None or v is None:
                    if u is not None or v is not None:
                        num += delta * delta
                        den += delta
                    continue
                w = (1.0 / (k - 1)) * max(0.0, 1.0 - alpha * pos(u, v))
                num += cat(u, v) * w
                den += w
                counted += 1
    if counted == 0 or den <= 0:
        return None, counted
    return num / den, counted


def _band(*slot_lists):
    """the library accumulates the weighted sums in float32: the relative error grows with the number of terms"""
    terms = sum(len(sl) * (len(sl) - 1) // 2 for sls in slot_lists for sl in sls)
    return max(1e-5, 4 * 1.1920929e-07 * terms)


def _categories_to_try(cont, spec):
    present = sorted({u[3] for u in cont["units"] if u[3] is not None})
    cats = gen.spec_categories(spec)
    absent = None
    pool = (cats if cats is not None else gen.LABELS_ABC + ["Zzz"])
    for l in pool:
        if l not in present:
            absent = l
            break
    return present, absent


def check_disorder(case):
    pa = import_library()
    from pyannote.core import Segment
    cont, spec = case["continuum"], case["dissim"]
    per = oracle.per_annotator(cont)
    names = sorted(per)
    c = oracle.build_continuum(cont)
    d = oracle.build_dissim(spec)
    kind = case["alignment"]
    if kind == "best":
        al = lib_call("best-alignment", c.get_best_alignment, d)
        slots_list = preds.alignment_structure(al, per, "best")
    elif kind == "soft":
        al = lib_call("soft-alignment", c.get_best_soft_alignment, d)
        slots_list = preds.alignment_structure(al, per, "soft")
    else:
        slots_list = []
        for g in case["groups"]:
            slots = [None if (idx is None or not per[a]) else per[a][idx % len(per[a])] for a, idx in zip(names, g)]
            if any(s is not None for s in slots):
                slots_list.append(slots)
        if not slots_list:
            return {"nontrivial": False, "classes": ["degenerate-empty"]}
        uas = [pa.UnitaryAlignment([(a, None if s is None else pa.Unit(Segment(s[0], s[1]), s[2])) for a, s in zip(names, slots)])
               for slots in slots_list]
        al = pa.Alignment(uas, continuum=c)
    present, absent = _categories_to_try(cont, spec)
    classes = [f"alignment={kind}", f"n={len(names)}", f"cat={'abs' if spec['cat'] is None else spec['cat']['kind']}"]
    compared = 0
    for category in [None] + present + ([absent] if absent is not None else []):
        got = lib_call("gamma_k_disorder", al.gamma_k_disorder, d, category)
        got = float(got)
        ref, counted = ref_gamma_k_disorder(spec, slots_list, category)
        if ref is None:
            classes.append("degenerate-category")
            continue
        compared += 1
        if not oracle.close(got, ref, rel=_band(slots_list)):
            raise Violation("gamma-k-disorder-mismatch", f"category {category!r}: library {got} definition {ref} slots {slots_list}")
    # history on the SAME alignment object: another combined dissimilarity, then an in-place edit (stale memos)
    second = case.get("second")
    if second:
        spec2 = dict(spec, alpha=second["alpha"], delta=second["delta"])
        if spec2["cat"] is not None:
            spec2["cat"] = dict(spec2["cat"], delta=second["delta"])
        d2 = oracle.build_dissim(spec2)
        for category in [None] + present[:2]:
            got = float(lib_call("gamma_k_disorder[second dissimilarity]", al.gamma_k_disorder, d2, category))
            ref, _ = ref_gamma_k_disorder(spec2, slots_list, category)
            if ref is not None and not oracle.close(got, ref, rel=_band(slots_list)):
                raise Violation("gamma-k-disorder-mismatch:after-other-dissimilarity", f"category {category!r}: library {got} definition {ref} (first alpha/delta {spec['alpha']}/{spec['delta']}, now {spec2['alpha']}/{spec2['delta']})")
        # in-place edit: append a copy of an existing unitary alignment's real pair as an extra unitary alignment
        donor = next((sl for sl in slots_list if sum(1 for x in sl if x is not None) >= 2), None)
        if donor is not None:
            keep = [i for i, x in enumerate(donor) if x is not None][:2]
            extra = [x if i in keep else None for i, x in enumerate(donor)]
            extra_ua = pa.UnitaryAlignment([(a, None if x is None else pa.Unit(Segment(x[0], x[1]), x[2])) for a, x in zip(names, extra)])
            al.unitary_alignments.append(extra_ua)
            slots2 = slots_list + [extra]
            for category in [None] + present[:1]:
                got = float(lib_call("gamma_k_disorder[after append]", al.gamma_k_disorder, d, category))
                ref, _ = ref_gamma_k_disorder(spec, slots2, category)
                if ref is not None and not oracle.close(got, ref, rel=_band(slots_list)):
                    raise Violation("gamma-k-disorder-mismatch:after-in-place-edit", f"category {category!r}: library {got} definition {ref}")
            al.unitary_alignments.pop()
            classes.append("history")
    # refusal for non-combined dissimilarities
    for other in ({"kind": "pos", "delta": 1.0}, {"kind": "abs", "delta": 1.0}):
        try:
            r = al.gamma_k_disorder(oracle.build_dissim(other), None)
        except Exception:
            continue
        raise Violation("non-combined-not-refused", f"gamma_k_disorder returned {r!r} for {other['kind']}")
    k3 = any(sum(1 for s in sl if s is not None) >= 3 for sl in slots_list)
    emp = any(sum(1 for s in sl if s is not None) >= 2 and any(s is None for s in sl) for sl in slots_list)
    if k3:
        classes.append("k>=3")
    if emp:
        classes.append("empty-beside-real-pair")
    if spec["alpha"] not in (0.0, 1.0):
        classes.append("alpha-not-0-or-1")
    if spec["delta"] != 1:
        classes.append("delta!=1")
    return {"nontrivial": compared > 0 and (k3 or emp or absent is not None), "classes": classes}


def check_results(case):
    pa = import_library()
    cont, spec = case["continuum"], case["dissim"]
    per = oracle.per_annotator(cont)
    c = oracle.build_continuum(cont)
    d = oracle.build_dissim(spec)
    smp = pa.ShuffleContinuumSampler() if case["sampler"] == "shuffle" else pa.StatisticalContinuumSampler()
    np.random.seed(case["seed"])
    g = lib_call("compute_gamma", c.compute_gamma, d, n_samples=case["n_samples"], precision_level=None, sampler=smp,
                 soft=case["soft"])
    obs_slots = preds.alignment_structure(g.best_alignment, per, "observed")
    chance_slots = []
    for al in g.chance_alignments:
        cper = {a: [oracle.lib_unit_tuple(u) for u in al.continuum[a]] for a in al.continuum.annotators}
        chance_slots.append(preds.alignment_structure(al, cper, "chance"))
    present, absent = _categories_to_try(cont, spec)
    classes = [f"sampler={case['sampler']}", "soft" if case["soft"] else "exact", f"shape={cont.get('shape')}"]
    compared = 0
    for category in [None] + present + ([absent] if absent is not None else []):
        name = "gamma_cat" if category is None else "gamma_k"
        got = lib_call(name, (lambda: g.gamma_cat) if category is None else (lambda: g.gamma_k(category)))
        got = float(got)
        if not math.isnan(got) and got > 1 + 1e-6:
            raise Violation(f"{name}-exceeds-1", f"category {category!r}: {got}")
        o, _ = ref_gamma_k_disorder(spec, obs_slots, category)
        ch = [ref_gamma_k_disorder(spec, s, category)[0] for s in chance_slots]
        if o is None or any(x is None for x in ch) or sum(ch) == 0:
            classes.append("degenerate-category")
            continue
        ref = 1.0 if o == 0 else 1.0 - o / (sum(ch) / len(ch))
        compared += 1
        if not oracle.close(got, ref, rel=max(1e-4, 4 * _band(obs_slots, *chance_slots)), scale=max(1.0, abs(ref), abs(1.0 - ref))):
            raise Violation(f"{name}-mismatch", f"category {category!r}: library {got} definition {ref}")
    # = 1 when co-aligned units never differ in category and no unit is unaligned
    if all(all(s is not None for s in sl) and len({s[2] for s in sl}) == 1 for sl in obs_slots):
        classes.append("category-consistent-complete")
        for category in [None] + present:
            got = float(g.gamma_cat if category is None else g.gamma_k(category))
            if not oracle.close(got, 1.0, rel=1e-6):
                raise Violation("not-1-on-category-agreement", f"category {category!r}: {got}")
    # refusal
    g2 = pa.continuum.GammaResults(best_alignment=g.best_alignment, chance_alignments=g.chance_alignments,
                                   dissimilarity=oracle.build_dissim({"kind": "pos", "delta": 1.0}))
    for fn, nm in ((lambda: g2.gamma_cat, "gamma_cat"), (lambda: g2.gamma_k(present[0] if present else "A"), "gamma_k")):
        try:
            r = fn()
        except Exception:
            continue
        raise Violation("non-combined-not-refused", f"{nm} returned {r!r} with a positional dissimilarity")
    return {"nontrivial": compared > 0, "classes": classes}


@st.composite
def disorder_cases(draw):
    cs = draw(gen.continuum_and_spec(kinds=("combined",), min_ann=2, max_ann=5, budget=2500, max_per=8))
    n = len(cs["continuum"]["annotators"])
    cs["alignment"] = draw(st.sampled_from(["best", "soft", "hand", "hand"]))
    slot = st.one_of(st.none(), st.integers(0, 30), st.integers(0, 30))
    cs["groups"] = draw(st.lists(st.lists(slot, min_size=n, max_size=n), min_size=1, max_size=8)) if cs["alignment"] == "hand" else []
    if draw(st.booleans()):
        cs["dissim"]["alpha"] = draw(st.sampled_from([0.0, 0.25, 0.5, 1.0, 2.0, 3.0]))
    if draw(st.booleans()):
        cs["second"] = {"alpha": draw(st.sampled_from([0.0, 0.5, 1.0, 3.0])), "delta": draw(st.sampled_from([0.5, 1.0, 2.0]))}
    return cs


@st.composite
def results_cases(draw):
    cs = draw(gen.continuum_and_spec(kinds=("combined",), min_ann=2, max_ann=4, budget=700, max_per=8,
                                     shapes=["random", "clusters", "identical", "identical", "sparse"]))
    # sampler precondition: labelled units, no empty annotator -> give every empty annotator one unit
    cont = cs["continuum"]
    have = {u[0] for u in cont["units"]}
    lab = cont["units"][0][3]
    for a in cont["annotators"]:
        if a not in have:
            cont["units"].append([a, 1.0, 3.0, lab])
    cs["sampler"] = draw(st.sampled_from(["statistical", "shuffle"]))
    cs["soft"] = draw(st.sampled_from([False, False, True]))
    cs["n_samples"] = draw(st.integers(1, 7))      # more samples than worker threads (2 inside a shard), not a multiple of them
    cs["seed"] = draw(st.integers(0, 2 ** 31 - 1))
    return cs


def subchecks(tier):
    return [
        Sub(name="disorder", check=check_disorder, strategy=disorder_cases(),
            examples={"quick": 200, "thorough": 4000}, shards={"quick": 8, "thorough": 16}),
        Sub(name="results", check=check_results, strategy=results_cases(),
            examples={"quick": 40, "thorough": 600}, shards={"quick": 8, "thorough": 16}),
    ]
