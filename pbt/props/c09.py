"""C09 - disorder and gamma are invariant under renaming, translation and scaling; linear in delta_empty."""
import math

import numpy as np
from hypothesis import strategies as st

from ..common import gen, oracle
from ..common.core import Sub, Violation, lib_call
from ..common.env import import_library

ID = "C09"
RULE = ("case = (continuum up to prod(k_i+1) <= 8000, e.g. 2x60 / 3x15 / 5x5 - mostly too large for an exact oracle; dissimilarity; one transformation of each "
        "kind: bijective annotator renaming (order-preserving, order-reversing or arbitrary), category renaming (arbitrary bijection for absolute / "
        "combined-with-absolute, order-preserving for precomputed and ordinal), translation by a grid constant, scaling by a positive factor "
        "(exact: powers of two, 3, 5, 7, 10, 1.5, 0.75; inexact: 0.1, 1/3, pi with an analytically widened band), delta_empty x c in ALL components). "
        "Oracle (metamorphic): best-alignment disorder unchanged by the first four, multiplied by c by the last; with the same NumPy seed every chance "
        "disorder is multiplied by c and gamma is unchanged. Non-trivial = the optimum has a unitary alignment with >= 2 real units (all five "
        "transformations are non-identity by construction); distinct = distinct canonical JSON.")
ASSUMPTIONS = ["base tolerance 2e-5 relative for exact transformations; for inexact scale factors the band is 2e-5 + 40*eps32*max|t|/min duration",
               "gamma relation uses precision_level=None, n_samples <= 4, labelled continua without empty annotators (sampler precondition)"]

EPS32 = float(np.finfo(np.float32).eps)


def best(cont, spec, label):
    c = oracle.build_continuum(cont)
    d = oracle.build_dissim(spec)
    al = lib_call(f"best-alignment[{label}]", c.get_best_alignment, d)
    multi = any(sum(1 for _, u in ua.n_tuple if u is not None) >= 2 for ua in al.unitary_alignments)
    return float(al.disorder), multi


def scale_delta(spec, c):
    out = dict(spec)
    out["delta"] = spec["delta"] * c
    if spec["kind"] == "combined":
        out["pos"] = None if spec["pos"] is None else scale_delta(spec["pos"], c)
        out["cat"] = None if spec["cat"] is None else scale_delta(spec["cat"], c)
    return out


def rename_categories(cont, spec, seed):
    """returns (cont', spec') or None when the dissimilarity's values depend on the label text itself"""
    import random
    rnd = random.Random(seed)
    cat = spec["cat"] if spec["kind"] == "combined" else (spec if spec["kind"] != "pos" else None)
    labels = sorted({u[3] for u in cont["units"] if u[3] is not None})
    if cat is None or cat["kind"] == "abs":
        pool = ["zeta", "Alpha", "m", "0", "b b", "Ω", "a", "Zz"]
        rnd.shuffle(pool)
        mapping = {l: pool[i] for i, l in enumerate(gen.LABELS_ABC)}
        for l in labels:
            mapping.setdefault(l, l + "'")
        new_spec = spec
    elif cat["kind"] == "precomputed":
        mapping = {l: "x_" + l for l in cat["cats"]}          # preserves alphabetical order
        new_cat = dict(cat, cats=[mapping[l] for l in cat["cats"]])
        new_spec = new_cat if spec["kind"] != "combined" else dict(spec, cat=new_cat)
    elif cat["kind"] == "ordinal":
        mapping = {l: "x_" + l for l in cat["labels"]}
        new_cat = dict(cat, labels=[mapping[l] for l in cat["labels"]])
        new_spec = new_cat if spec["kind"] != "combined" else dict(spec, cat=new_cat)
    else:
        return None
    new_cont = dict(cont, units=[[a, s, e, (None if l is None else mapping[l])] for a, s, e, l in cont["units"]])
    return new_cont, new_spec


def check(case):
    pa = import_library()
    cont, spec = case["continuum"], case["dissim"]
    D0, multi = best(cont, spec, "base")
    names = list(cont["annotators"])
    classes = [f"n={len(names)}", f"kind={spec['kind']}", "with-exact-oracle-size" if gen.continuum_product(cont) <= 1300 else "beyond-exact-oracle"]

    def same(D, what, rel=oracle.REL_TOL):
        if not oracle.close(D, D0, rel=rel):
            raise Violation(f"not-invariant:{what}", f"base {D0} transformed {D} ({what}: {case[what] if what in case else ''})")

    # 1. annotator renaming
    mode = case["rename"]
    srt = sorted(names)
    if mode == "reverse":
        new = [f"n{len(srt) - i:02d}" for i in range(len(srt))]
    elif mode == "preserve":
        new = [f"n{i:02d}" for i in range(len(srt))]
    else:
        import random
        new = [f"n{i:02d}" for i in range(len(srt))]
        random.Random(case["perm"]).shuffle(new)
    amap = dict(zip(srt, new))
    c1 = {"annotators": [amap[a] for a in names], "units": [[amap[a], s, e, l] for a, s, e, l in cont["units"]]}
    same(best(c1, spec, "renamed-annotators")[0], "rename")
    # 2. category renaming
    rc = rename_categories(cont, spec, case["perm"])
    if rc is not None:
        same(best(rc[0], rc[1], "renamed-categories")[0], "category-renaming")
        classes.append("category-renaming-applied")
    # 3. translation
    t = case["shift"]
    c3 = dict(cont, units=[[a, s + t, e + t, l] for a, s, e, l in cont["units"]])
    same(best(c3, spec, "translated")[0], "shift")
    # 4. scaling
    f = case["factor"]
    exact = case["factor_exact"]
    c4 = dict(cont, units=[[a, s * f, e * f, l] for a, s, e, l in cont["units"]])
    rel = oracle.REL_TOL
    if not exact:
        tmax = max(max(abs(u[1]), abs(u[2])) for u in cont["units"])
        dmin = min(u[2] - u[1] for u in cont["units"])
        rel = oracle.REL_TOL + 40 * EPS32 * max(tmax, 1.0) / dmin
        classes.append("inexact-factor")
    same(best(c4, spec, "scaled")[0], "factor", rel=rel)
    # 5. delta_empty scaling
    k = case["delta_factor"]
    spec5 = scale_delta(spec, k)
    D5, _ = best(cont, spec5, "delta-scaled")
    if not oracle.close(D5, k * D0, rel=oracle.REL_TOL, scale=max(1.0, abs(k * D0), abs(D0))):
        raise Violation("not-linear-in-delta-empty", f"base {D0} x {k} = {k * D0} but got {D5}")
    # gamma relation
    if case.get("gamma"):
        per = oracle.per_annotator(cont)
        if all(len(v) > 0 for v in per.values()) and all(u[3] is not None for u in cont["units"]):
            res = []
            for sp in (spec, spec5):
                c = oracle.build_continuum(cont)
                smp = pa.ShuffleContinuumSampler() if case["gamma"] == "shuffle" else pa.StatisticalContinuumSampler()
                np.random.seed(case["seed"])
                g = lib_call("compute_gamma", c.compute_gamma, oracle.build_dissim(sp), n_samples=case["n_samples"],
                             precision_level=None, sampler=smp)
                res.append(g)
            g0, g1 = res
            a = [float(x.disorder) for x in g0.chance_alignments]
            b = [float(x.disorder) for x in g1.chance_alignments]
            if len(a) != len(b):
                raise Violation("gamma:sample-count-changed", f"{len(a)} vs {len(b)}")
            for x, y in zip(a, b):
                if not oracle.close(y, k * x, scale=max(1.0, abs(k * x), abs(x))):
                    raise Violation("gamma:chance-disorder-not-linear", f"{x} x {k} vs {y}")
            if not oracle.close(float(g1.gamma), float(g0.gamma), rel=1e-4):
                raise Violation("gamma:changed-by-delta-scaling", f"{g0.gamma} vs {g1.gamma} (factor {k})")
            classes.append("gamma-relation-checked")
    if multi:
        classes.append("multi-unit-unitary")
    return {"nontrivial": multi, "classes": classes}


EXACT_FACTORS = [0.25, 0.5, 2.0, 4.0, 1024.0, 3.0, 5.0, 7.0, 10.0, 1.5, 0.75]
INEXACT_FACTORS = [0.1, 1 / 3, math.pi]


@st.composite
def cases(draw, gamma=False):
    if gamma:
        cs = draw(gen.continuum_and_spec(kinds=("combined", "pos", "abs", "precomputed", "ordinal"), min_ann=2, max_ann=3, budget=600, max_per=8,
                                         shapes=["random", "clusters", "sparse", "nested"]))
        cs["gamma"] = draw(st.sampled_from(["statistical", "shuffle"]))
        cs["n_samples"] = draw(st.integers(1, 4))
        cs["seed"] = draw(st.integers(0, 2 ** 31 - 1))
    elif draw(st.integers(0, 3)) == 0:
        from . import c02
        cs = draw(c02.larger_cases())        # dense 3x12 continua: the solver has to branch, column order (= annotator names) matters to it
        cs.pop("backend", None)
        cs.pop("xcheck", None)
    else:
        cs = draw(gen.continuum_and_spec(min_ann=2, max_ann=5, budget=8000, max_per=60, unlabelled_ratio=0.25))
    cs["rename"] = draw(st.sampled_from(["reverse", "preserve", "arbitrary"]))
    cs["perm"] = draw(st.integers(0, 10 ** 6))
    cs["shift"] = draw(st.integers(-4000, 20000).filter(lambda k: k != 0).map(lambda k: k / 4))
    if draw(st.integers(0, 4)) == 0:
        cs["factor"], cs["factor_exact"] = draw(st.sampled_from(INEXACT_FACTORS)), False
    else:
        cs["factor"], cs["factor_exact"] = draw(st.sampled_from(EXACT_FACTORS)), True
    cs["delta_factor"] = draw(st.one_of(st.sampled_from([0.25, 0.5, 2.0, 3.0]),
                                        st.floats(0.2, 5.0, allow_nan=False).map(lambda x: round(x, 2)).filter(lambda x: x != 1.0)))
    return cs


def subchecks(tier):
    return [
        Sub(name="disorder", check=check, strategy=cases(),
            examples={"quick": 90, "thorough": 1500}, shards={"quick": 8, "thorough": 16}),
        Sub(name="gamma", check=check, strategy=cases(gamma=True),
            examples={"quick": 30, "thorough": 400}, shards={"quick": 8, "thorough": 16}),
    ]
