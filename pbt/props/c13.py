"""C13 - a continuum behaves as sorted unit sets per annotator under any history (model-based)."""
import itertools

from hypothesis import strategies as st
from hypothesis.stateful import rule, precondition, initialize

from ..common import oracle
from ..common.core import Sub, Violation, make_machine_base
from ..common.env import import_library

ID = "C13"
RULE = ("case = operation history over up to 4 continua: add(annotator, segment, label|None) over small alphabets (duplicates and equal-segment units "
        "differing only by label/None occur), add of a zero-length segment, add_annotator, remove (present / absent unit / absent annotator), "
        "merge(in_place True/False), +, copy, copy_flush, reset_bounds. 'machine': Hypothesis RuleBasedStateMachine, up to 50 steps; 'short': ALL sequences "
        "up to length 4 (quick) / 5 (thorough) over a 21-operation alphabet (exhaustive). Model: dict annotator -> set of (start, end, label), labels ever "
        "added, exact bounds per the docstrings. Invariant after every step for every held continuum: annotators alphabetical; iteration = model in the "
        "documented strict order (start, end, label, None first) and strictly increasing under Unit.<; num_units / len / bool / c[a] / c[a, i] agree; labels in "
        "use <= categories <= labels ever added (incl. sources of copies/merges); bounds exact; == is model equality for every pair, reflexive, symmetric, "
        "consistent with !=; in-place and out-of-place merges agree; zero-length add raises ValueError and absent remove raises KeyError, changing nothing. "
        "Non-trivial = the history has a remove/merge/copy followed by a later step and two units sharing a segment; distinct = distinct op log.")
ASSUMPTIONS = ["bounds model: (0,0) initially, min/max on add, untouched by remove, units' extent ((0,0) if none) after reset_bounds, carried by copy/copy_flush/merge",
               "removing an absent unit must raise KeyError (docstring); ValueError for it is a violation"]

ANN = ["x", "y", "Zed"]
LABELS = [None, "a", "b", ""]
STARTS = [0.0, 1.0, 2.5]
DURS = [1.0, 2.0]


class Model:
    def __init__(self):
        self.ann = {}
        self.ever = set()
        self.bounds = (0.0, 0.0)

    def copy(self, flush=False):
        m = Model()
        if not flush:
            m.ann = {a: set(u) for a, u in self.ann.items()}
        m.ever = set(self.ever)
        m.bounds = self.bounds
        return m

    def add(self, a, s, e, l):
        self.ann.setdefault(a, set()).add((s, e, l))
        if l is not None:
            self.ever.add(l)
        self.bounds = (min(self.bounds[0], s), max(self.bounds[1], e))

    def merge(self, other):
        for a in other.ann:
            self.ann.setdefault(a, set())
        for a, units in other.ann.items():
            for (s, e, l) in sorted(units, key=oracle.unit_key):
                self.add(a, s, e, l)
        self.ever |= other.ever      # upper bound only

    def units(self):
        return [(a, u) for a in sorted(self.ann) for u in sorted(self.ann[a], key=oracle.unit_key)]

    def in_use(self):
        return {u[2] for us in self.ann.values() for u in us if u[2] is not None}


class Interp:
    def __init__(self):
        self.pa = import_library()
        from pyannote.core import Segment
        self.Segment = Segment
        self.slots = []      # [(continuum, model)]
        self.flags = {"mutating_structural": False, "later_step": False, "shared_segment": False, "removes": 0, "merges": 0, "copies": 0}
        self.apply({"op": "new"})

    # -------------------------------------------------------------- helpers
    def _pick(self, i):
        return self.slots[i % len(self.slots)]

    def _store(self, dst, pair):
        if len(self.slots) < 4:
            self.slots.append(pair)
        else:
            self.slots[dst % 4] = pair

    def _snapshot(self, c):
        return ([(a, oracle.lib_unit_tuple(u)) for a, u in c], list(c.annotators), list(c.categories), c.bounds)

    def info(self):
        f = self.flags
        return {"nontrivial": f["later_step"] and f["shared_segment"],
                "classes": [k for k in ("removes", "merges", "copies") if f[k]] + (["shared-segment"] if f["shared_segment"] else [])}

    # -------------------------------------------------------------- operations
    def apply(self, op):
        pa, Segment = self.pa, self.Segment
        kind = op["op"]
        if self.flags["mutating_structural"]:
            self.flags["later_step"] = True
        if kind == "new":
            self._store(op.get("dst", 0), (pa.Continuum(), Model()))
        elif kind == "add":
            c, m = self._pick(op["c"])
            try:
                c.add(op["a"], Segment(op["s"], op["e"]), op["l"])
            except Exception as e:
                raise Violation(f"add:raises:{type(e).__name__}", repr(e))
            m.add(op["a"], op["s"], op["e"], op["l"])
        elif kind == "add_like":
            c, m = self._pick(op["c"])
            units = m.units()
            if not units:
                return
            a, u = units[op["k"] % len(units)]
            a = a if not op.get("other") else ANN[op["k"] % len(ANN)]
            try:
                c.add(a, Segment(u[0], u[1]), op["l"])
            except Exception as e:
                raise Violation(f"add:raises:{type(e).__name__}", repr(e))
            m.add(a, u[0], u[1], op["l"])
        elif kind == "add_zero":
            c, m = self._pick(op["c"])
            before = self._snapshot(c)
            try:
                c.add(op["a"], Segment(op["t"], op["t"]), op["l"])
            except ValueError:
                pass
            except Exception as e:
                raise Violation(f"zero-length:raises:{type(e).__name__}", repr(e))
            else:
                raise Violation("zero-length-accepted", f"add({op['a']!r}, [{op['t']}, {op['t']}]) did not raise")
            if self._snapshot(c) != before:
                raise Violation("zero-length-add-mutated", f"{before} -> {self._snapshot(c)}")
        elif kind == "add_annotator":
            c, m = self._pick(op["c"])
            c.add_annotator(op["a"])
            m.ann.setdefault(op["a"], set())
        elif kind == "remove":
            c, m = self._pick(op["c"])
            units = m.units()
            if not units:
                return
            a, u = units[op["k"] % len(units)]
            try:
                c.remove(a, pa.Unit(Segment(u[0], u[1]), u[2]))
            except Exception as e:
                raise Violation(f"remove-present:raises:{type(e).__name__}", f"remove({a!r}, {u}): {e!r}")
            m.ann[a].discard(u)
            self.flags["removes"] += 1
            self.flags["mutating_structural"] = True
        elif kind == "remove_absent":
            c, m = self._pick(op["c"])
            u = (op["s"], op["e"], op["l"])
            if op["a"] in m.ann and u in m.ann[op["a"]]:
                return
            before = self._snapshot(c)
            try:
                c.remove(op["a"], pa.Unit(Segment(u[0], u[1]), u[2]))
            except KeyError:
                pass
            except Exception as e:
                raise Violation(f"remove-absent:raises:{type(e).__name__}", f"remove({op['a']!r}, {u}) should raise KeyError: {e!r}")
            else:
                raise Violation("remove-absent-accepted", f"remove({op['a']!r}, {u}) did not raise")
            if self._snapshot(c) != before:
                raise Violation("remove-absent-mutated", f"{before} -> {self._snapshot(c)}")
        elif kind in ("merge", "plus"):
            c, m = self._pick(op["c"])
            o, mo = self._pick(op["o"])
            # both variants on copies must agree
            exp = m.copy()
            exp.merge(mo)
            try:
                ca = c.copy()
                ca.merge(o, in_place=True)
                cb = c.merge(o, in_place=False) if kind == "merge" else c + o
            except Exception as e:
                raise Violation(f"merge:raises:{type(e).__name__}", repr(e))
            if cb is None:
                raise Violation("merge-out-of-place-returned-none", "")
            if self._snapshot(ca) != self._snapshot(cb):
                raise Violation("merge-in-place-vs-out-of-place", f"{self._snapshot(ca)} vs {self._snapshot(cb)}")
            if kind == "merge" and op.get("in_place"):
                r = c.merge(o, in_place=True)
                if r is not None:
                    raise Violation("merge-in-place-returned-value", repr(r))
                m.merge(mo if mo is not m else m.copy())
            else:
                self._store(op.get("dst", 0), (cb, exp))
            self.flags["merges"] += 1
            self.flags["mutating_structural"] = True
        elif kind in ("copy", "copy_flush"):
            c, m = self._pick(op["c"])
            cc = c.copy() if kind == "copy" else c.copy_flush()
            self._store(op.get("dst", 0), (cc, m.copy(flush=(kind == "copy_flush"))))
            self.flags["copies"] += 1
            self.flags["mutating_structural"] = True
        elif kind == "reset_bounds":
            c, m = self._pick(op["c"])
            c.reset_bounds()
            us = [u for units in m.ann.values() for u in units]
            m.bounds = (min(u[0] for u in us), max(u[1] for u in us)) if us else (0.0, 0.0)
        else:
            raise ValueError(kind)
        self.check_all()

    # -------------------------------------------------------------- invariants
    def check_all(self):
        pa, Segment = self.pa, self.Segment
        for idx, (c, m) in enumerate(self.slots):
            names = sorted(m.ann)
            if list(c.annotators) != names:
                raise Violation("annotators", f"#{idx}: {list(c.annotators)} vs model {names}")
            exp = m.units()
            try:
                got = [(a, oracle.lib_unit_tuple(u)) for a, u in c]
            except Exception as e:
                raise Violation(f"iteration:raises:{type(e).__name__}", repr(e))
            if got != exp:
                raise Violation("units", f"#{idx}: iteration {got} vs model {exp}")
            raw = list(c)
            for (a1, u1), (a2, u2) in zip(raw, raw[1:]):
                if a1 == a2 and not (u1 < u2 and not (u2 < u1) and u1 != u2):
                    raise Violation("order-not-strict", f"#{idx}: {u1} / {u2}")
            segs = {}
            for a, u in exp:
                segs.setdefault((a, u[0], u[1]), []).append(u[2])
            if any(len(v) > 1 for v in segs.values()):
                self.flags["shared_segment"] = True
            if c.num_units != len(exp) or len(c) != len(names) or c.num_annotators != len(names) or bool(c) != (len(exp) > 0):
                raise Violation("counts", f"#{idx}: num_units {c.num_units} len {len(c)} bool {bool(c)} vs model {len(exp)} units {len(names)} annotators")
            for a in names:
                mine = sorted(m.ann[a], key=oracle.unit_key)
                theirs = [oracle.lib_unit_tuple(u) for u in c[a]]
                if theirs != mine:
                    raise Violation("getitem-annotator", f"#{idx}: c[{a!r}] = {theirs} vs {mine}")
                if [oracle.lib_unit_tuple(u) for u in c.iter_annotator(a)] != mine:
                    raise Violation("iter_annotator", f"#{idx}: {a!r}")
                for i, u in enumerate(mine):
                    if oracle.lib_unit_tuple(c[a, i]) != u:
                        raise Violation("getitem-index", f"#{idx}: c[{a!r}, {i}]")
            cats = set(c.categories)
            if list(c.categories) != sorted(cats):
                raise Violation("categories-not-sorted", f"#{idx}: {list(c.categories)}")
            if not m.in_use() <= cats:
                raise Violation("categories-miss-label-in-use", f"#{idx}: in use {sorted(m.in_use())} categories {sorted(cats)}")
            if not cats <= m.ever:
                raise Violation("categories-invented", f"#{idx}: categories {sorted(cats)} ever added {sorted(m.ever)}")
            if tuple(c.bounds) != m.bounds or (c.bound_inf, c.bound_sup) != m.bounds:
                raise Violation("bounds", f"#{idx}: {c.bounds} vs model {m.bounds}")
            for (a, u) in exp:
                if not (c.bound_inf <= u[0] and u[1] <= c.bound_sup):
                    raise Violation("bounds-do-not-enclose", f"#{idx}: {u} outside {c.bounds}")
            if names and c.avg_num_annotations_per_annotator != len(exp) / len(names):
                raise Violation("avg-units", f"#{idx}")
        for i, (ci, mi) in enumerate(self.slots):
            for j, (cj, mj) in enumerate(self.slots):
                want = (mi.ann == mj.ann)
                eq, ne = (ci == cj), (ci != cj)
                if eq != want or ne == eq:
                    raise Violation("equality", f"#{i} == #{j}: {eq} (!=: {ne}) but model equality is {want}")
            if ci == 3 or not (ci != 3):
                raise Violation("equality-with-foreign-type", f"#{i}")


# ------------------------------------------------------------------ Hypothesis machine

def make_machine():
    Base = make_machine_base()
    slot = st.integers(0, 3)
    ann = st.sampled_from(ANN)
    lab = st.sampled_from(LABELS)
    start = st.sampled_from(STARTS)
    dur = st.sampled_from(DURS)

    class ContinuumMachine(Base):
        make_interp = staticmethod(Interp)

        @rule(c=slot, a=ann, s=start, d=dur, l=lab)
        def add(self, c, a, s, d, l):
            self.do({"op": "add", "c": c, "a": a, "s": s, "e": s + d, "l": l})

        @rule(c=slot, a=ann, s=st.floats(-50, 50, allow_nan=False), d=st.floats(0.01, 30, allow_nan=False), l=st.sampled_from([None, "a", "b", "c", "ü"]))
        def add_free(self, c, a, s, d, l):
            self.do({"op": "add", "c": c, "a": a, "s": s, "e": s + d, "l": l})

        @rule(c=slot, k=st.integers(0, 40), l=lab, other=st.booleans())
        def add_like(self, c, k, l, other):
            """same segment as an existing unit, any label (duplicates and label-only differences)"""
            self.do({"op": "add_like", "c": c, "k": k, "l": l, "other": other})

        @rule(c=slot, a=ann, t=start, l=lab)
        def add_zero(self, c, a, t, l):
            self.do({"op": "add_zero", "c": c, "a": a, "t": t, "l": l})

        @rule(c=slot, a=st.sampled_from(ANN + ["w"]))
        def add_annotator(self, c, a):
            self.do({"op": "add_annotator", "c": c, "a": a})

        @rule(c=slot, k=st.integers(0, 40))
        def remove(self, c, k):
            self.do({"op": "remove", "c": c, "k": k})

        @rule(c=slot, a=st.sampled_from(ANN + ["nobody"]), s=start, d=dur, l=lab)
        def remove_absent(self, c, a, s, d, l):
            self.do({"op": "remove_absent", "c": c, "a": a, "s": s, "e": s + d, "l": l})

        @rule(c=slot, o=slot, in_place=st.booleans(), dst=slot)
        def merge(self, c, o, in_place, dst):
            self.do({"op": "merge", "c": c, "o": o, "in_place": in_place, "dst": dst})

        @rule(c=slot, o=slot, dst=slot)
        def plus(self, c, o, dst):
            self.do({"op": "plus", "c": c, "o": o, "dst": dst})

        @rule(c=slot, dst=slot, flush=st.booleans())
        def copy(self, c, dst, flush):
            self.do({"op": "copy_flush" if flush else "copy", "c": c, "dst": dst})

        @rule(c=slot)
        def reset_bounds(self, c):
            self.do({"op": "reset_bounds", "c": c})

        @rule(dst=slot)
        def new(self, dst):
            self.do({"op": "new", "dst": dst})

    return ContinuumMachine


def check_log(case):
    it = Interp()
    for op in case["ops"]:
        it.apply(op)
    return it.info()


# ------------------------------------------------------------------ exhaustive short histories

def alphabet():
    ops = []
    for a in ("x", "y"):
        for (s, e) in ((0.0, 1.0), (0.0, 2.0)):
            for l in (None, "a", "b"):
                ops.append({"op": "add", "c": 0, "a": a, "s": s, "e": e, "l": l})
    ops += [{"op": "remove", "c": 0, "k": 0}, {"op": "remove", "c": 0, "k": 1},
            {"op": "add_annotator", "c": 0, "a": "x"}, {"op": "add_annotator", "c": 0, "a": "y"},
            {"op": "reset_bounds", "c": 0},
            {"op": "copy", "c": 0, "dst": 1},
            {"op": "merge", "c": 0, "o": 1, "in_place": True, "dst": 1},
            {"op": "merge", "c": 1, "o": 0, "in_place": False, "dst": 1},
            {"op": "add_zero", "c": 0, "a": "x", "t": 1.0, "l": "a"}]
    return ops


def short_cases(maxlen):
    ops = alphabet()

    def it():
        for n in range(1, maxlen + 1):
            for seq in itertools.product(ops, repeat=n):
                yield {"ops": list(seq)}
    return it


def subchecks(tier):
    return [
        Sub(name="machine", kind="machine", check=check_log, machine=make_machine(), steps=50,
            examples={"quick": 400, "thorough": 4000}, shards={"quick": 8, "thorough": 16}),
        Sub(name="short", kind="enum", check=check_log, cases=short_cases(4 if tier == "quick" else 5), exhaustive=True,
            shards={"quick": 16, "thorough": 16}, budget_s={"quick": 150.0, "thorough": 3000.0}),
    ]
