"""C16 - the shuffle sampler emits wrapped translations with separated pivots."""
import itertools
import math

import numpy as np
from hypothesis import strategies as st

from ..common import gen, oracle
from ..common.core import Sub, Violation, lib_call
from ..common.env import import_library

ID = "C16"
RULE = ("case = (reference continuum 2-5 annotators, integer-valued or fractional times, bounds natural / reset to the units' extent / widened beyond the units; "
        "ground-truth subset (>= 2) or None; pivot type int|float; NumPy seed; 12-40 draws). Oracle by reconstruction from public outputs only: every sampled "
        "annotator must be explained as ONE ground-truth annotator's units (same number, durations, labels) shifted by ONE pivot with the documented wrap "
        "(start + pivot > upper bound => shifted back by the continuum's length); some explanation has its pivot within the bounds, integral in integer mode; "
        "sample non-empty with len(ground truth) annotators; when the continuum is long enough (length >= 2*k*d + 2k + 2, d = half the mean unit length, "
        "k sampled annotators) SOME choice of one explanation per sampled annotator has all pivots pairwise >= d apart (existential: periodic references "
        "cannot raise a false alarm). Non-trivial = >= 3 sampled annotators or >= 1 wrapped unit; distinct = canonical JSON.")
ASSUMPTIONS = ["interleaved draws: a nested draw from the same sampler object is triggered test-side at the public Continuum.add_annotator call of the outer draw (what two threads sharing one sampler would produce)",
               "matching is exact in integer mode on grid times and within 1e-9*scale in float mode",
               "a sampled annotator without units is explained by any ground-truth annotator without units (its pivot is unobservable and unconstrained)",
               "in integer mode, 'pivot within the bounds and integral' is demanded only when the continuum is long enough (length >= 2kd + 2k + 2): shorter continua may contain no whole number and reach the sampler's documented fallbacks"]


def explanations(sampled, gt_units, lo, hi, exact):
    """all pivots p such that shifting gt_units by p (with wrap) gives exactly `sampled` (lists of (s, e, label))"""
    L = hi - lo
    if len(sampled) != len(gt_units):
        return []
    if not gt_units:
        return [None]
    scale = max(1.0, abs(lo), abs(hi))
    tol = 0.0 if exact else 1e-9 * scale
    u0 = gt_units[0]
    cands = set()
    for s in sampled:
        if s[2] != u0[2] or abs((s[1] - s[0]) - (u0[1] - u0[0])) > max(tol, 1e-12 * scale):
            continue
        cands.add(s[0] - u0[0])
        cands.add(s[0] - u0[0] + L)
    out = []
    target = sorted(sampled, key=oracle.unit_key)
    for p in sorted(cands):
        img = []
        for u in gt_units:
            if u[0] + p > hi:
                img.append((u[0] + p + lo - hi, u[1] + p + lo - hi, u[2]))
            else:
                img.append((u[0] + p, u[1] + p, u[2]))
        img.sort(key=oracle.unit_key)
        ok = all(a[2] == b[2] and abs(a[0] - b[0]) <= tol and abs(a[1] - b[1]) <= tol for a, b in zip(img, target))
        if ok and not any(abs(p - q) <= tol for q in out):
            out.append(p)
    return out


def build_reference(case):
    pa = import_library()
    from pyannote.core import Segment
    cont = case["continuum"]
    c = oracle.build_continuum(cont)
    mode = case["bounds"]
    if mode == "reset":
        c.reset_bounds()
    elif mode == "widened":
        lo = min(u[1] for u in cont["units"]) - case["widen"][0]
        hi = max(u[2] for u in cont["units"]) + case["widen"][1]
        a = cont["annotators"][0]
        for seg in (Segment(lo, lo + 1.0), Segment(hi - 1.0, hi)):
            c.add(a, seg, "__tmp__")
            c.remove(a, pa.Unit(seg, "__tmp__"))
    return c


def check(case):
    pa = import_library()
    cont = case["continuum"]
    per = oracle.per_annotator(cont)
    c = build_reference(case)
    gt = case["ground_truth"]
    gt_names = sorted(per) if gt is None else sorted(gt)
    int_mode = case["pivot"] == "int_pivot"
    smp = pa.ShuffleContinuumSampler(pivot_type=case["pivot"])
    if case.get("used_before"):
        # history: the same sampler object was initialised on, and drew from, another continuum (very short units)
        from pyannote.core import Segment
        other = pa.Continuum()
        for i, a in enumerate(["p", "q", "r"]):
            other.add(a, Segment(10.0 * i, 10.0 * i + 0.25), "A")
            other.add(a, Segment(200.0 + i, 200.25 + i), "B")
        smp.init_sampling(other)
        np.random.seed(case["seed"] + 1)
        _ = smp.sample_from_continuum
    lib_call("init_sampling", smp.init_sampling, c, None if gt is None else list(gt))
    lo, hi = c.bounds
    L = hi - lo
    nunits = sum(len(v) for v in per.values())
    d = sum(u[1] - u[0] for v in per.values() for u in v) / nunits / 2
    k = len(gt_names)
    long_enough = L >= 2 * k * d + 2 * k + 2
    exact = False   # reconstruction within 1e-9*scale in both modes (a fallback pivot may be fractional in integer mode)
    np.random.seed(case["seed"])
    wrapped_any = False
    classes = [f"k={k}", case["pivot"], f"bounds={case['bounds']}", "sampler-used-before" if case.get("used_before") else "fresh-sampler", "long-enough" if long_enough else "too-short-for-separation"]
    for draw_i in range(case["draws"]):
        if case.get("interleave") and draw_i % 4 == 3:
            # harness-owned interleaving of two draws from the SAME sampler object (as two threads sharing it would
            # produce): a second, complete draw is made between two pivot draws of the outer one, at the public
            # add_annotator call.  The outer draw must still be a valid sample.
            C = pa.Continuum
            orig_add_annotator = C.add_annotator
            st_ = {"depth": 0, "calls": 0}

            def hooked(self, annotator):
                orig_add_annotator(self, annotator)
                st_["calls"] += 1
                if st_["depth"] == 0 and st_["calls"] == 1 + (draw_i % max(1, k - 1)):
                    st_["depth"] = 1
                    try:
                        _ = smp.sample_from_continuum
                    finally:
                        st_["depth"] = 0
            C.add_annotator = hooked
            try:
                s = lib_call("sample_from_continuum[interleaved]", lambda: smp.sample_from_continuum)
            finally:
                C.add_annotator = orig_add_annotator
            if "interleaved-draws" not in classes:
                classes.append("interleaved-draws")
        else:
            s = lib_call("sample_from_continuum", lambda: smp.sample_from_continuum)
        if not s:
            raise Violation("empty-sample", f"draw {draw_i}")
        if s is c:
            raise Violation("sample-is-the-reference", "")
        if len(s.annotators) != k:
            raise Violation("annotator-count", f"draw {draw_i}: {list(s.annotators)} for ground truth {gt_names}")
        per_s = {a: [oracle.lib_unit_tuple(u) for u in s[a]] for a in s.annotators}
        all_expl = []
        for a, units in per_s.items():
            expl = []
            for g in gt_names:
                for p in explanations(units, per[g], lo, hi, exact):
                    expl.append((g, p))
            if not expl:
                raise Violation("sampled-annotator-not-a-shifted-copy", f"draw {draw_i}: {a!r} units {units} explained by no (ground-truth annotator, pivot); bounds {(lo, hi)}")
            good = [(g, p) for g, p in expl if p is None or (lo - 1e-9 <= p <= hi + 1e-9 and (not int_mode or float(p).is_integer()))]
            if int_mode and not long_enough:
                # a short continuum may hold no whole number at all and the sampler's fallbacks apply: only the
                # shifted-copy structure is demanded there (see DESIGN.md C16)
                good = expl
            if not good:
                raise Violation("pivot-outside-bounds-or-not-integral", f"draw {draw_i}: {a!r} explanations {expl} bounds {(lo, hi)} int_mode={int_mode}")
            all_expl.append(good)
            for g, p in good[:1]:
                if p is not None and any(u[0] + p > hi for u in per[g]):
                    wrapped_any = True
        if long_enough and k >= 2:
            pivsets = [sorted({p for _, p in e if p is not None}) for e in all_expl]
            pivsets = [ps for ps in pivsets if ps]
            ok = False
            if math.prod(len(ps) for ps in pivsets) > 5000:
                ok = True   # highly periodic reference: not decidable cheaply, counted
                classes.append("periodic-skipped")
            else:
                for combo in itertools.product(*pivsets):
                    if all(abs(x - y) >= d - 1e-9 for x, y in itertools.combinations(combo, 2)):
                        ok = True
                        break
            if not ok:
                raise Violation("pivots-closer-than-half-mean-length", f"draw {draw_i}: pivot choices {pivsets} need pairwise distance >= {d}; bounds {(lo, hi)}")
    if wrapped_any:
        classes.append("wrapped-unit")
    return {"nontrivial": k >= 3 or wrapped_any, "classes": classes}


@st.composite
def cases(draw):
    n = draw(st.integers(2, 5))
    names = ["a", "b", "c", "d", "e"][:n]
    integer_times = draw(st.booleans())
    units = []
    span = draw(st.sampled_from([40, 120, 400]))
    for a in names:
        kk = draw(st.integers(0 if len(units) else 1, 6))
        for _ in range(kk):
            if integer_times:
                s0 = float(draw(st.integers(-10, span)))
                du = float(draw(st.integers(1, 12)))
            else:
                s0 = draw(gen.dyadic(-10, span))
                du = draw(gen.dyadic(0.25, 12))
            lab = draw(st.sampled_from(["A", "B", None]))
            units.append([a, s0, s0 + du, lab])
    seen, out = set(), []
    for u in units:
        if tuple(u) not in seen:
            seen.add(tuple(u))
            out.append(u)
    cont = {"annotators": names, "units": out}
    gt = None
    if n > 2 and draw(st.booleans()):
        kk = draw(st.integers(2, n))
        gt = sorted(draw(st.permutations(names))[:kk])
        if not any(u[0] in gt for u in out):      # sampler precondition: some ground-truth annotator has units
            gt = sorted(set(gt[1:]) | {out[0][0]}) if out[0][0] not in gt else gt
    return {"continuum": cont, "ground_truth": gt, "pivot": draw(st.sampled_from(["int_pivot", "float_pivot"])),
            "bounds": draw(st.sampled_from(["natural", "natural", "reset", "widened"])),
            "widen": [float(draw(st.integers(0, 50))), float(draw(st.integers(0, 300)))],
            "seed": draw(st.integers(0, 2 ** 31 - 1)), "draws": draw(st.integers(12, 40)), "used_before": draw(st.booleans()), "interleave": draw(st.booleans())}


def subchecks(tier):
    return [
        Sub(name="draws", check=check, strategy=cases(),
            examples={"quick": 250, "thorough": 5000}, shards={"quick": 8, "thorough": 16}),
    ]
