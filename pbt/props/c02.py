"""C02 - the best alignment has minimal disorder among all alignments (independent exact oracle)."""
import numpy as np
from hypothesis import strategies as st

from ..common import gen, oracle, preds, backends
from ..common.core import Sub, Violation, lib_call
from ..common.env import HarnessError
from . import c01

ID = "C02"
RULE = ("'history': the same continuum and dissimilarity objects are re-aligned after in-place edits (replace/add/remove a unit). 'bridge': 3-5 annotators, two short units whose couple alone costs C(n,2)..n*C(n,2) delta_empty (steps of 1/32 on the "
        "gap/duration ratio) bridged by a long unit of every other annotator, optional far bystanders: optimality and survival of the n-unit candidate "
        "depend on its SUM only. Otherwise: "
        "case = (continuum small enough for an exact oracle: n>=3 with prod(k_i+1) <= 1300, e.g. 3x9 / 4x5 / 5x3, or 2 annotators up to 2x60; "
        "dissimilarity spec with alpha/beta incl. 0 and delta_empty != 1; back-end cbc|glpk), Hypothesis-generated, plus the C01 exhaustive grid. "
        "Oracle: minimum over ALL partitions using the UNPRUNED candidate set and float64 reference formulas "
        "(bitmask DP <= 9 units, Hungarian for 2 annotators, HiGHS MILP with upper and dual bound otherwise); the library value must lie in "
        "[lower - tol, upper + tol], tol = 2e-5 relative. Non-trivial = the library's alignment has a unitary alignment with >= 2 real units and "
        "(some candidate is pruned by the n*delta cut or costs within [delta, n*delta], or n >= 4); distinct = distinct canonical JSON.")
ASSUMPTIONS = [
    "scipy.optimize.milp (HiGHS) and linear_sum_assignment are trusted; DP and MILP are cross-checked on small cases (disagreement = harness error)",
    "reference formulas are written from the property statement; ordinal/numerical normalisation = max(1, max position distance)",
    "times are multiples of 1/4 (float32-exact): only operation rounding separates float32 library values from float64 references",
]


def check(case, cover=False):
    cont, spec = case["continuum"], case["dissim"]
    c = oracle.build_continuum(cont)
    d = oracle.build_dissim(spec)
    info = evaluate(case, c, d, cont, cover)
    # history: the SAME continuum / dissimilarity objects re-used after in-place edits (stale caches, leftover state)
    for edit in case.get("edits", []):
        cont = oracle.apply_edit(c, cont, edit, gen.labels_for(spec))
        info2 = evaluate(case, c, d, cont, cover, label="after-in-place-edit:")
        info["classes"] = sorted(set(info["classes"]) | {"edited-in-place"})
        info["nontrivial"] = info["nontrivial"] or info2["nontrivial"]
        info["lib"], info["slots"], info["final_cont"] = info2["lib"], info2["slots"], cont
    return info


def evaluate(case, c, d, cont, cover=False, label=""):
    with oracle.scale_floor(case["dissim"]["delta"]):
        return _evaluate(case, c, d, cont, cover, label)


def _evaluate(case, c, d, cont, cover=False, label=""):
    spec, mode = case["dissim"], case.get("backend", "cbc")
    per = oracle.per_annotator(cont)
    with backends.backend(mode) as used:
        if cover:
            al = lib_call("soft-alignment", c.get_best_soft_alignment, d)
        else:
            al = lib_call("best-alignment", c.get_best_alignment, d)
    label = label + ("soft" if cover else "best")
    slots = preds.check_cover(al, per, label) if cover else preds.check_partition(al, per, label)
    preds.check_reported_disorders(al, slots, spec, per, label)
    lst = [per[a] for a in sorted(per)]
    n = len(lst)
    nunits = sum(len(p) for p in lst)
    costs = oracle.all_tuple_costs(spec, lst)
    if n == 2 and not cover:
        up = lo = oracle.optimum_assignment(spec, lst)
        method = "assignment"
    elif nunits <= 9:
        up = lo = oracle.optimum_dp(lst, costs, cover)
        method = "dp"
    else:
        up, lo = oracle.optimum_milp(lst, costs, cover)
        method = "milp" if (up - lo) <= 1e-7 * max(oracle.FLOOR, abs(lo)) else "milp-gap"
    if method in ("dp", "assignment") and nunits <= 12 and case.get("xcheck", 0) == 1:
        up2, lo2 = oracle.optimum_milp(lst, costs, cover)
        if abs(up2 - up) > 5e-6 * max(oracle.FLOOR, abs(up)):   # HiGHS stops at an absolute gap of 1e-6 (in units of delta_empty)
            raise HarnessError(f"oracles disagree: {method}={up} milp={up2} on {case}")
    mean_units = nunits / n
    ref_up, ref_lo = up / mean_units, lo / mean_units
    lib = float(al.disorder)
    tol = oracle.REL_TOL * max(oracle.FLOOR, abs(ref_up if np.isfinite(ref_up) else ref_lo))
    if lib > ref_up + tol:
        raise Violation(f"{label}:not-minimal", f"library disorder {lib} > reference optimum {ref_up} ({method})")
    if lib < ref_lo - tol:
        raise Violation(f"{label}:below-optimum", f"library disorder {lib} < reference lower bound {ref_lo} ({method})")
    delta = float(spec["delta"])
    finite = costs[np.isfinite(costs)]
    pruned = bool(np.any(finite > n * delta * (1 + 1e-5)))
    band = bool(np.any((finite >= delta * (1 + 1e-9)) & (finite <= n * delta)))
    multi = any(sum(1 for s in sl if s is not None) >= 2 for sl in slots)
    classes = [f"n={n}", f"method={method}", f"backend={mode}", f"kind={spec['kind']}"]
    if pruned:
        classes.append("pruned-some")
    if delta != 1:
        classes.append("delta!=1")
    if delta < 1e-2 or delta > 1e2:
        classes.append("extreme-delta-scale")
    if spec["kind"] == "combined":
        if spec["alpha"] == 0 or spec["beta"] == 0:
            classes.append("alpha-or-beta=0")
        if (spec["cat"] and spec["cat"]["delta"] != delta) or (spec["pos"] and spec["pos"]["delta"] != delta):
            classes.append("component-delta-differs")
    if multi:
        classes.append("multi-unit-unitary")
    return {"nontrivial": multi and (pruned or band or n >= 4), "classes": classes,
            "ref": ref_up, "lib": lib, "slots": slots}


@st.composite
def cases(draw, pairs=False):
    if pairs:
        cs = draw(gen.continuum_and_spec(min_ann=2, max_ann=2, budget=3721, max_per=60, unlabelled_ratio=0.1, span=240, extreme=True))
    else:
        cs = draw(gen.continuum_and_spec(min_ann=3, max_ann=5, budget=1300, max_per=9, unlabelled_ratio=0.1, extreme=True))
    cs["backend"] = draw(st.sampled_from(["cbc", "cbc", "glpk"]))
    cs["xcheck"] = draw(st.sampled_from([0, 0, 0, 1]))
    return cs


@st.composite
def larger_cases(draw):
    """dense 3-4 annotator continua up to 3x14 / 4x7: the LP relaxation is fractional there and the solver has to branch"""
    if draw(st.booleans()):
        # 3 annotators x 10-14 units each, densely overlapping, 3 categories (the regime in which a MIP solver really branches)
        spec = draw(st.sampled_from([
            {"kind": "combined", "alpha": 1.0, "beta": 1.0, "delta": 1.0, "pos": None, "cat": None},
            {"kind": "combined", "alpha": 1.0, "beta": 1.0, "delta": 2.5, "pos": None, "cat": None},
            {"kind": "combined", "alpha": 2.0, "beta": 1.0, "delta": 1.0, "pos": None, "cat": None},
            {"kind": "pos", "delta": 1.0}]))
        units = []
        for a in ("a", "b", "c"):
            for _ in range(draw(st.integers(10, 14))):
                s0 = draw(gen.dyadic(0, 40))
                units.append([a, s0, s0 + draw(gen.dyadic(1, 8)), draw(st.sampled_from(["A", "B", "C"]))])
        seen, out = set(), []
        for u in units:
            if tuple(u) not in seen:
                seen.add(tuple(u))
                out.append(u)
        cs = {"continuum": {"annotators": ["a", "b", "c"], "units": out, "shape": "dense-3x12"}, "dissim": spec}
    else:
        cs = draw(gen.continuum_and_spec(kinds=("combined", "combined", "pos", "precomputed", "ordinal"), min_ann=3, max_ann=4, budget=3500, max_per=14,
                                         shapes=["random", "random", "clusters", "coincide"], span=30, equal_delta_only=True))
    cs["backend"] = draw(st.sampled_from(["cbc", "cbc", "cbc", "glpk"]))
    cs["xcheck"] = 0
    return cs


@st.composite
def bridge_cases(draw):
    """two short units of two annotators, far apart (their couple alone costs between C(n,2) and n*C(n,2) delta_empty, the whole range a single couple
    of a retained candidate can take), bridged by one long unit of each other annotator: whether the n-unit unitary alignment is optimal, and whether
    it survives the cut, is decided by its SUM only - any per-couple shortcut in the pruning shows here"""
    n = draw(st.integers(3, 5))
    c2n = n * (n - 1) // 2
    w = 4.0
    lo, hi = int(32 * c2n ** 0.5), int(32 * (n * c2n) ** 0.5) + 2
    g = draw(st.integers(lo, hi)) / 8.0             # (g/w)^2 = positional cost of the far couple, in steps of 1/32 on g/w
    names = ["a", "b", "c", "d", "e"][:n]
    order = draw(st.permutations(names))
    lab = draw(st.sampled_from(["A", "B"]))
    units = [[order[0], 0.0, w, lab], [order[1], g, g + w, lab]]
    for a in order[2:]:
        units.append([a, 0.0 - draw(st.integers(0, 2)) / 8.0, g + w + draw(st.integers(0, 2)) / 8.0, lab])
    for a in order:                                   # optional far-away bystanders
        if draw(st.integers(0, 3)) == 0:
            s0 = 400.0 + draw(gen.dyadic(0, 40))
            units.append([a, s0, s0 + draw(gen.dyadic(1, 8)), draw(st.sampled_from(["A", "B"]))])
    delta = draw(st.sampled_from([1.0, 1.0, 0.5, 2.5]))
    spec = draw(st.sampled_from([{"kind": "pos", "delta": delta},
                                 {"kind": "combined", "alpha": 1.0, "beta": 1.0, "delta": delta, "pos": None, "cat": None},
                                 {"kind": "combined", "alpha": 1.0, "beta": 0.0, "delta": delta, "pos": None, "cat": None}]))
    return {"continuum": {"annotators": sorted(names), "units": units, "shape": "bridge"}, "dissim": spec,
            "backend": draw(st.sampled_from(["cbc", "cbc", "glpk"])), "xcheck": draw(st.sampled_from([0, 1]))}


@st.composite
def history_cases(draw):
    from . import c07
    cs = draw(cases())
    cs["edits"] = draw(st.lists(c07.EDIT, min_size=1, max_size=3))
    return cs


def subchecks(tier):
    subs = [
        Sub(name="history", check=check, strategy=history_cases(),
            examples={"quick": 60, "thorough": 800}, shards={"quick": 8, "thorough": 16}),
        Sub(name="larger", check=check, strategy=larger_cases(),
            examples={"quick": 60, "thorough": 800}, shards={"quick": 8, "thorough": 16}),
        Sub(name="random", check=check, strategy=cases(),
            examples={"quick": 300, "thorough": 2500}, shards={"quick": 8, "thorough": 16}),
        Sub(name="pairs", check=check, strategy=cases(pairs=True),
            examples={"quick": 120, "thorough": 800}, shards={"quick": 8, "thorough": 16}),
        Sub(name="bridge", check=check, strategy=bridge_cases(),
            examples={"quick": 300, "thorough": 4000}, shards={"quick": 8, "thorough": 16}),
        Sub(name="grid2", kind="enum", check=check, cases=c01.enum_cases(2), exhaustive=True,
            shards={"quick": 8, "thorough": 16}),
    ]
    if tier == "thorough":
        subs.append(Sub(name="grid3", kind="enum", check=check, cases=c01.enum_cases(3, ("cbc",)), exhaustive=True,
                        shards={"quick": 8, "thorough": 16}, budget_s={"quick": 150, "thorough": 3000}))
    return subs
