"""C04 - built-in dissimilarities compute their documented formula in both forms."""
import math

import numpy as np
from hypothesis import strategies as st

from ..common import gen, oracle
from ..common.core import Sub, Violation, lib_call
from ..common.env import import_library

ID = "C04"
RULE = ("'sequence': 2-3 dissimilarity objects (combined with default or supplied components, different delta_empty) are built one after the other and "
        "each is then checked, in both orders. 'supply-order': one label->position map (ordinal with explicit positions / numerical) "
        "supplied in 2-4 orders: every pair of names gets the same d() and compiled value from each object (metamorphic, no calibrated constant). "
        "Otherwise: case = (dissimilarity spec, list of unit pairs). 'pairs': every class incl. combined with components built with the same or a different "
        "delta_empty, alpha/beta in {0, .5, .75, 1, 2, 3}, labels in generated (unsorted) order; unit pairs on the float32-exact grid and with arbitrary "
        "floats (|t| <= 1000, duration >= 0.05, docs-like values), identical / nested / disjoint / touching. 'bigcats': 1..300 categories generated from a "
        "seed, category ranks concentrated around 126-129 and 254-257. Oracle: compiled form (observed through a 2-annotator unitary alignment's disorder, "
        "both argument orders, and through d_mat on the documented array encoding) == unit-to-unit function d() == documented formula looked up BY CATEGORY "
        "NAME; symmetry, non-negativity, zero on identical units; ordinal/numerical proportional to position distance (constant calibrated once). "
        "Non-trivial = the spec has a pair with differing categories or a non-zero positional part; distinct = distinct canonical JSON of (spec, pairs).")
ASSUMPTIONS = [
    "compiled form is observed via UnitaryAlignment([(a,u),(b,v)]).compute_disorder(d) (2 annotators, both real: exactly d_mat) and via the public d_mat attribute",
    "Levenshtein: distance/(max(len)+1) and distance/max(len) both accepted (calibrated by one probe); ordinal/numerical: one positive constant per object calibrated on the extreme pair",
    "arbitrary-float inputs: compiled form is compared with the formula evaluated on the float32-rounded (start, end, duration) triple the library documents it works on",
]

EPS32 = float(np.finfo(np.float32).eps)


def _f32(x):
    return float(np.float32(x))


def _unit32(u):
    return (_f32(u[0]), _f32(u[1]), u[2]), _f32(u[1] - u[0])


def _ref32(spec, u, v):
    """documented formula on the float32-rounded triple (start, end, duration)"""
    (u32, du), (v32, dv) = _unit32(u), _unit32(v)
    k = spec["kind"]
    delta = float(spec["delta"])

    def pos():
        num = abs(u32[0] - v32[0]) + abs(u32[1] - v32[1])
        return (num / (du + dv)) ** 2 * delta
    if k == "pos":
        return pos()
    if k == "combined":
        cat = oracle.ref_d({"kind": "combined", "alpha": 0.0, "beta": 1.0, "delta": delta, "pos": None, "cat": spec["cat"]})(u, v)
        return float(spec["alpha"]) * pos() + float(spec["beta"]) * cat
    return oracle.ref_d(spec)(u, v)


def _expand(spec):
    """'big' specs carry a seed instead of explicit tables"""
    if spec.get("big"):
        rs = np.random.RandomState(spec["seed"])
        n = spec["ncat"]
        kind = spec["kind"]
        if kind == "precomputed":
            cats = sorted(f"k{i}" for i in range(n))
            m = rs.randint(0, 9, size=(n, n)).astype(float) / 8.0
            m = np.triu(m, 1)
            m = m + m.T
            return {"kind": "precomputed", "cats": cats, "matrix": m.tolist(), "delta": spec["delta"]}
        if kind == "lev":
            alphabet = "abcde"
            labels = set()
            while len(labels) < n:
                L = rs.randint(1, 7)
                labels.add("".join(alphabet[i] for i in rs.randint(0, len(alphabet), size=L)))
            labels = list(labels)
            labels.sort()
            rs.shuffle(labels)
            return {"kind": "lev", "labels": labels, "delta": spec["delta"]}
        if kind == "ordinal":
            labels = [f"k{i}" for i in range(n)]
            rs.shuffle(labels)
            p = (rs.randint(0, 400, size=n) / 4.0).tolist() if spec.get("with_p") else None
            return {"kind": "ordinal", "labels": labels, "p": p, "delta": spec["delta"]}
        if kind == "numerical":
            vals = rs.choice(np.arange(0, 4 * n + 4), size=n, replace=False)
            labels = [str(int(v)) if v % 3 else str(v / 2.0) for v in vals]
            labels = list(dict.fromkeys(labels))
            return {"kind": "numerical", "labels": labels, "delta": spec["delta"]}
        if kind == "combined":
            inner = _expand(dict(spec["cat"], big=True))
            return {"kind": "combined", "alpha": spec["alpha"], "beta": spec["beta"], "delta": spec["delta"],
                    "pos": spec.get("pos"), "cat": inner}
    return spec


def check(case):
    if "sequence" in case:
        # several dissimilarity objects built one after the other, then each one is checked (again): constructing a
        # later object must not disturb an earlier one (shared / cached components)
        specs = [_expand(sp) for sp in case["sequence"]]
        objs = [oracle.build_dissim(sp, cache=False) for sp in specs]
        info = None
        order = list(range(len(specs))) + list(range(len(specs)))[::-1]
        for i in order:
            r = evaluate(dict(case, dissim=case["sequence"][i]), objs[i], label="sequence:")
            info = r if info is None else {"nontrivial": info["nontrivial"] or r["nontrivial"], "classes": sorted(set(info["classes"]) | set(r["classes"]))}
        info["classes"].append(f"sequence-of-{len(specs)}")
        return info
    spec = _expand(case["dissim"])
    d = oracle.build_dissim(spec, cache=False)
    return evaluate(case, d)


def evaluate(case, d, label=""):
    pa = import_library()
    from pyannote.core import Segment
    spec = _expand(case["dissim"])
    ref = oracle.ref_d(spec)
    cats = gen.spec_categories(spec)
    cats_sorted = sorted(cats) if cats is not None else None
    delta = float(spec["delta"])
    if not oracle.close(float(d.delta_empty), delta, rel=1e-6):
        raise Violation(label + "delta-empty-attribute", f"{float(d.delta_empty)} vs {delta}")
    nontrivial = False
    classes = [f"kind={spec['kind']}"]
    if cats is not None:
        classes.append("ncat>=128" if len(cats) >= 128 else "ncat<128")
        src = spec["cat"] if spec["kind"] == "combined" else spec
        supplied = src.get("labels", src.get("cats"))
        if list(supplied) != sorted(supplied):
            classes.append("labels-unsorted")
    if spec["kind"] == "combined":
        if (spec["cat"] and spec["cat"]["delta"] != delta) or (spec["pos"] and spec["pos"]["delta"] != delta):
            classes.append("component-delta-differs")
        if delta != 1:
            classes.append("delta!=1")
    hi_rank = False
    values = []
    for pair in case["pairs"]:
        u, v = pair["u"], pair["v"]
        if cats_sorted is not None:
            u = [u[0], u[1], cats_sorted[u[2] % len(cats_sorted)]]
            v = [v[0], v[1], cats_sorted[v[2] % len(cats_sorted)]]
            if cats_sorted.index(u[2]) >= 128 or cats_sorted.index(v[2]) >= 128:
                hi_rank = True
        else:
            # no category table: any label is accepted, and so is "no label" (unlabelled units)
            pool = gen.LABELS_ABC + [None]
            u = [u[0], u[1], pool[u[2] % 5]]
            v = [v[0], v[1], pool[v[2] % 5]]
            if u[2] is None or v[2] is None:
                classes.append("unlabelled-unit")
        u, v = tuple(u), tuple(v)
        U = pa.Unit(Segment(u[0], u[1]), u[2])
        V = pa.Unit(Segment(v[0], v[1]), v[2])
        exact = pair.get("exact", True)
        r64 = ref(u, v)
        r32 = _ref32(spec, u, v)
        # unit-to-unit function, both orders
        duv = float(lib_call("d(u,v)", d.d, U, V))
        dvu = float(lib_call("d(v,u)", d.d, V, U))
        # compiled form through the public alignment API, both orders
        cuv = float(lib_call("compiled(u,v)", pa.UnitaryAlignment([("a", U), ("b", V)]).compute_disorder, d))
        cvu = float(lib_call("compiled(v,u)", pa.UnitaryAlignment([("a", V), ("b", U)]).compute_disorder, d))
        what = f"u={u} v={v} spec={_short(spec)}"
        if not oracle.close(duv, r64, rel=1e-5):
            raise Violation(label + "unit-form-vs-formula", f"d(u,v)={duv} formula={r64} {what}")
        if not oracle.close(dvu, duv, rel=1e-6):
            raise Violation(label + "unit-form-asymmetric", f"{duv} vs {dvu} {what}")
        if not oracle.close(cuv, r32):
            raise Violation(label + "compiled-form-vs-formula", f"compiled={cuv} formula(float32 inputs)={r32} {what}")
        if not oracle.close(cvu, cuv, rel=1e-6):
            raise Violation(label + "compiled-form-asymmetric", f"{cuv} vs {cvu} {what}")
        band = oracle.REL_TOL
        if not exact:
            amp = 16 * EPS32 * max(abs(u[0]), abs(u[1]), abs(v[0]), abs(v[1]), 1.0) / min(u[1] - u[0], v[1] - v[0])
            band = oracle.REL_TOL + amp * 4 * max(1.0, math.sqrt(max(r64, 0.0) / max(delta, 1e-9)))
        if not oracle.close(cuv, duv, rel=band, scale=max(1.0, abs(duv)) * max(1.0, float(spec.get("alpha", 1.0)))):
            raise Violation(label + "compiled-vs-unit-form", f"compiled={cuv} d()={duv} {what}")
        if duv < 0 or cuv < 0:
            raise Violation(label + "negative-value", f"{duv} {cuv} {what}")
        # zero on identical units
        for W, w in ((U, u), (V, v)):
            z1 = float(d.d(W, W))
            z2 = float(pa.UnitaryAlignment([("a", W), ("b", W)]).compute_disorder(d))
            if z1 != 0 or z2 != 0:
                raise Violation(label + "nonzero-on-identical", f"d={z1} compiled={z2} unit={w} spec={_short(spec)}")
        # d_mat on the documented array encoding (start, end, duration, alphabetical category rank)
        if cats_sorted is not None:
            au = np.array([u[0], u[1], u[1] - u[0], cats_sorted.index(u[2])], dtype=np.float32)
            av = np.array([v[0], v[1], v[1] - v[0], cats_sorted.index(v[2])], dtype=np.float32)
            m = float(d.d_mat(au, av))
            if not oracle.close(m, r32):
                raise Violation(label + "d_mat-vs-formula", f"d_mat={m} formula={r32} {what}")
        if u[2] != v[2] or (u[0], u[1]) != (v[0], v[1]):
            nontrivial = True
        values.append((u, v, duv))
    # the same values observed through ONE continuum object whose category set grows in place between evaluations
    # (dissimilarities without a category table take the categories from the continuum they are given): units are
    # added in decreasing label order, so that every newly arriving label sorts BEFORE the ones already known
    if cats_sorted is None and values:
        order = sorted(values, key=lambda t: max(t[0][2] or "", t[1][2] or ""), reverse=True)
        c = pa.Continuum()
        done = []
        for k, (u, v, _) in enumerate(order):
            c.add("a", Segment(u[0], u[1]), u[2])
            c.add("b", Segment(v[0], v[1]), v[2])
            done.append((u, v))
            if k % 2 == 0 and k != len(order) - 1:
                continue
            uas = [pa.UnitaryAlignment([("a", pa.Unit(Segment(x[0], x[1]), x[2])), ("b", pa.Unit(Segment(y[0], y[1]), y[2]))]) for x, y in done]
            got = lib_call("compute_disorder[growing continuum]", d.compute_disorder, pa.Alignment(uas, continuum=c))
            for (x, y), g in zip(done, got):
                r32 = _ref32(spec, x, y)
                if not oracle.close(float(g), r32):
                    raise Violation(label + "compiled-form-vs-formula:after-categories-grew-in-place", f"compiled={float(g)} formula={r32} u={x} v={y} spec={_short(spec)}")
        classes.append("continuum-categories-grown-in-place")
    # a categorical value depends only on the two names: the unit form is compared with the name-based reference for MANY
    # label pairs (all of them for small tables, a seeded sample of 2500 for large ones)
    if cats_sorted is not None and len(cats_sorted) > 1:
        import itertools
        import random as _r
        all_pairs = list(itertools.combinations(cats_sorted, 2))
        if len(all_pairs) > 2500:
            all_pairs = _r.Random(len(cats_sorted)).sample(all_pairs, 2500)
        seg = Segment(0.0, 1.0)
        for a, b in all_pairs:
            got = float(d.d(pa.Unit(seg, a), pa.Unit(seg, b)))
            want = ref((0.0, 1.0, a), (0.0, 1.0, b))
            if not oracle.close(got, want, rel=1e-5):
                raise Violation(label + "unit-form-vs-formula:label-pair", f"d({a!r},{b!r})={got} formula={want} spec={_short(spec)}")
    # ordinal / numerical: proportionality to the distance of positions
    src = spec["cat"] if spec["kind"] == "combined" else spec
    if src and src["kind"] in ("ordinal", "numerical") and spec["kind"] != "combined":
        pos = oracle.ordinal_positions(src)
        for (u1, v1, d1) in values:
            for (u2, v2, d2) in values:
                lhs = d1 * abs(pos[u2[2]] - pos[v2[2]])
                rhs = d2 * abs(pos[u1[2]] - pos[v1[2]])
                if not oracle.close(lhs, rhs, rel=1e-4, scale=max(1.0, abs(lhs), abs(rhs))):
                    raise Violation(label + "ordinal-not-proportional", f"{u1[2]},{v1[2]} -> {d1}; {u2[2]},{v2[2]} -> {d2}; positions {pos}")
    if hi_rank:
        classes.append("rank>=128")
    if any(not p.get("exact", True) for p in case["pairs"]):
        classes.append("arbitrary-floats")
    return {"nontrivial": nontrivial, "classes": classes}


def _short(spec):
    s = oracle.canon(spec)
    return s if len(s) < 400 else s[:400] + "..."


# ------------------------------------------------------------------ strategies

DOCS_VALUES = [11.3, 15.6, 20.0, 25.7, 10.0, 26.3, 17.5, 21.3, 0.1, 0.3, 1 / 3]


@st.composite
def unit_pairs(draw, rank_strategy):
    mode = draw(st.sampled_from(["grid", "grid", "float", "identical", "nested", "touching", "disjoint"]))
    ru, rv = draw(rank_strategy), draw(rank_strategy)
    if draw(st.integers(0, 5)) == 0:
        rv = ru
    exact = True
    if mode == "float":
        exact = False
        f = st.one_of(st.sampled_from(DOCS_VALUES), st.floats(-1000, 1000, allow_nan=False, width=64))
        s1, s2 = draw(f), draw(f)
        d1 = draw(st.floats(0.05, 300, allow_nan=False))
        d2 = draw(st.floats(0.05, 300, allow_nan=False))
        u, v = [s1, s1 + d1, ru], [s2, s2 + d2, rv]
    else:
        s1 = draw(gen.dyadic(-64, 512))
        d1 = draw(gen.dyadic(0.25, 40))
        if mode == "identical":
            s2, d2 = s1, d1
        elif mode == "nested":
            s2 = s1 + draw(gen.dyadic(0, 4))
            d2 = max(0.25, d1 - draw(gen.dyadic(0, 8)))
        elif mode == "touching":
            s2, d2 = s1 + d1, draw(gen.dyadic(0.25, 40))
        elif mode == "disjoint":
            s2, d2 = s1 + d1 + draw(gen.dyadic(0.25, 200)), draw(gen.dyadic(0.25, 40))
        else:
            s2, d2 = draw(gen.dyadic(-64, 512)), draw(gen.dyadic(0.25, 40))
        u, v = [s1, s1 + d1, ru], [s2, s2 + d2, rv]
    return {"u": u, "v": v, "exact": exact}


@st.composite
def pair_cases(draw):
    spec = draw(gen.dissim_specs(max_cats=8))
    if spec["kind"] == "combined":
        # arbitrary coefficients as well
        if draw(st.booleans()):
            spec["alpha"] = draw(st.floats(0, 4, allow_nan=False).map(lambda x: round(x, 3)))
            spec["beta"] = draw(st.floats(0, 4, allow_nan=False).map(lambda x: round(x, 3)))
        if draw(st.booleans()):
            spec["delta"] = draw(st.floats(0.1, 4, allow_nan=False).map(lambda x: round(x, 3)))
    pairs = draw(st.lists(unit_pairs(st.integers(0, 7)), min_size=6, max_size=14))
    return {"dissim": spec, "pairs": pairs}


HOT_RANKS = [0, 1, 126, 127, 128, 129, 130, 200, 254, 255, 256, 257, 299]


@st.composite
def big_cases(draw):
    kind = draw(st.sampled_from(["precomputed", "lev", "ordinal", "numerical", "combined"]))
    ncat = draw(st.one_of(st.integers(1, 300), st.sampled_from([127, 128, 129, 130, 200, 256, 257, 300])))
    delta = draw(st.sampled_from(gen.DELTAS))
    spec = {"big": True, "kind": kind, "ncat": ncat, "seed": draw(st.integers(0, 2 ** 31 - 1)), "delta": delta}
    if kind == "ordinal":
        spec["with_p"] = draw(st.booleans())
    if kind == "combined":
        ck = draw(st.sampled_from(["precomputed", "lev", "ordinal", "numerical"]))
        spec["alpha"] = draw(st.sampled_from(gen.COEFS))
        spec["beta"] = draw(st.sampled_from([1.0, 0.5, 2.0]))
        spec["cat"] = {"kind": ck, "ncat": ncat, "seed": spec["seed"], "delta": draw(st.sampled_from([delta, 1.0, 2.0])),
                       "with_p": draw(st.booleans())}
    ranks = st.one_of(st.sampled_from(HOT_RANKS), st.integers(0, 299))
    pairs = draw(st.lists(unit_pairs(ranks), min_size=8, max_size=16))
    return {"dissim": spec, "pairs": pairs}


@st.composite
def same_labels_sequence_cases(draw):
    """2-3 ordinal / numerical / Levenshtein dissimilarities over the SAME set of labels (same delta_empty), supplied in
    different orders and with different positions: a value may depend on the two names (and positions) only"""
    kind = draw(st.sampled_from(["ordinal", "ordinal", "numerical", "lev"]))
    pool = gen.LABELS_NUM if kind == "numerical" else gen.LABELS_WORDS + gen.LABELS_ABC
    labels = draw(st.lists(st.sampled_from(pool), min_size=3, max_size=6, unique=True))
    delta = draw(st.sampled_from(gen.DELTAS))
    specs = []
    for _ in range(draw(st.integers(2, 3))):
        order = list(draw(st.permutations(labels)))
        if kind == "ordinal":
            p_ = None if draw(st.booleans()) else draw(st.lists(st.integers(0, 40).map(lambda k: k / 4), min_size=len(order), max_size=len(order)))
            sp = {"kind": "ordinal", "labels": order, "p": p_, "delta": delta}
        elif kind == "numerical":
            sp = {"kind": "numerical", "labels": order, "delta": delta}
        else:
            sp = {"kind": "lev", "labels": order, "delta": delta}
        if draw(st.integers(0, 2)) == 0:
            sp = {"kind": "combined", "alpha": draw(st.sampled_from(gen.COEFS)), "beta": draw(st.sampled_from([1.0, 0.5, 2.0])), "delta": delta, "pos": None, "cat": sp}
        specs.append(sp)
    pairs = draw(st.lists(unit_pairs(st.integers(0, 5)), min_size=5, max_size=9))
    return {"sequence": specs, "pairs": pairs}


@st.composite
def sequence_cases(draw):
    if draw(st.booleans()):
        return draw(same_labels_sequence_cases())
    k = draw(st.integers(2, 3))
    specs = []
    for _ in range(k):
        sp = draw(gen.dissim_specs(kinds=("combined", "combined", "pos", "abs"), max_cats=4))
        if sp["kind"] == "combined" and draw(st.booleans()):
            sp["pos"], sp["cat"] = None, None          # default components
        specs.append(sp)
    # labels must be valid for every spec: restrict to specs without a category table, or share one table
    tables = [gen.spec_categories(sp) for sp in specs]
    if any(t is not None for t in tables):
        for sp in specs:
            if sp["kind"] == "combined":
                sp["cat"] = None
    pairs = draw(st.lists(unit_pairs(st.integers(0, 3)), min_size=4, max_size=8))
    return {"sequence": specs, "pairs": pairs}


@st.composite
def supply_order_cases(draw):
    """one label -> position map (ordinal with explicit positions, or numerical labels), supplied in 2-4 different orders"""
    kind = draw(st.sampled_from(["ordinal", "numerical"]))
    pool = gen.LABELS_NUM if kind == "numerical" else gen.LABELS_WORDS + gen.LABELS_ABC
    labels = draw(st.lists(st.sampled_from(pool), min_size=2, max_size=7, unique=True))
    pos = draw(st.lists(st.integers(0, 40).map(lambda k: k / 4), min_size=len(labels), max_size=len(labels))) if kind == "ordinal" else None
    idx = list(range(len(labels)))
    orders = [idx] + [list(draw(st.permutations(idx))) for _ in range(draw(st.integers(1, 3)))]
    return {"kind": kind, "labels": labels, "p": pos, "orders": orders, "delta": draw(st.sampled_from(gen.DELTAS)),
            "combined": draw(st.integers(0, 2)) == 0}


def check_supply_order(case):
    """metamorphic: an ordinal / numerical dissimilarity depends on the two names (and their positions), not on the order of supply"""
    pa = import_library()
    from pyannote.core import Segment
    labels, pos = case["labels"], case["p"]
    tables = []
    for order in case["orders"]:
        sp = {"kind": case["kind"], "labels": [labels[i] for i in order], "delta": case["delta"]}
        if case["kind"] == "ordinal":
            sp["p"] = [pos[i] for i in order]
        if case["combined"]:
            sp = {"kind": "combined", "alpha": 0.0, "beta": 1.0, "delta": case["delta"], "pos": None, "cat": sp}
        d = oracle.build_dissim(_expand(sp), cache=False)
        vals = {}
        for a in labels:
            for b in labels:
                U, V = pa.Unit(Segment(0, 1), a), pa.Unit(Segment(0, 1), b)
                vals[(a, b)] = (float(lib_call("d(u,v)", d.d, U, V)),
                                float(lib_call("compiled(u,v)", pa.UnitaryAlignment([("a", U), ("b", V)]).compute_disorder, d)))
        tables.append(vals)
    scale = max([abs(x) for t in tables for v in t.values() for x in v] + [oracle.FLOOR * case["delta"]])
    for k, t in enumerate(tables[1:], 1):
        for key, (dv, cv) in t.items():
            d0, c0 = tables[0][key]
            if abs(dv - d0) > 1e-5 * scale or abs(cv - c0) > 1e-5 * scale:
                raise Violation("supply-order:value-depends-on-order-of-labels",
                                f"{case['kind']} {key}: supplied as {[labels[i] for i in case['orders'][0]]} -> d {d0} compiled {c0}; "
                                f"supplied as {[labels[i] for i in case['orders'][k]]} -> d {dv} compiled {cv} (positions {pos})")
    distinct_orders = len({tuple(o) for o in case["orders"]})
    ends_moved = any((o[0], o[-1]) != (case["orders"][0][0], case["orders"][0][-1]) for o in case["orders"][1:])
    return {"nontrivial": distinct_orders >= 2 and len(labels) >= 3,
            "classes": [f"kind={case['kind']}", f"orders={distinct_orders}"] + (["first-or-last-supplied-label-differs"] if ends_moved else [])
            + (["inside-combined"] if case["combined"] else [])}


def subchecks(tier):
    return [
        Sub(name="supply-order", check=check_supply_order, strategy=supply_order_cases(),
            examples={"quick": 60, "thorough": 800}, shards={"quick": 8, "thorough": 16}),
        Sub(name="pairs", check=check, strategy=pair_cases(),
            examples={"quick": 100, "thorough": 800}, shards={"quick": 8, "thorough": 16}),
        Sub(name="sequence", check=check, strategy=sequence_cases(),
            examples={"quick": 40, "thorough": 500}, shards={"quick": 8, "thorough": 16}),
        Sub(name="bigcats", check=check, strategy=big_cases(),
            examples={"quick": 50, "thorough": 400}, shards={"quick": 8, "thorough": 16}),
    ]
