"""C08 - alignment results do not depend on the MIP back-end."""
import numpy as np
from hypothesis import strategies as st

from ..common import gen, oracle, preds, backends
from ..common.core import Sub, Violation, lib_call
from . import c01, c02

ID = "C08"
RULE = ("case = (continuum, dissimilarity spec); each case is solved under four solver configurations: CBC usable, `import cylp` failing with "
        "ModuleNotFoundError (sys.modules entry None), `import cylp` failing with a plain ImportError (unloadable shared library, injected by a meta-path finder), "
        "CBC raising cvxpy.SolverError (fault injected for solver=CBC only) - for the best and for the soft alignment. Oracle: the solve-spy confirms "
        "which solver ran (CBC / GLPK_MI / failed CBC then GLPK_MI); best is a partition and soft a cover under every configuration; disorders agree "
        "across configurations within 2e-5 relative, and with the independent optimum when the case is small enough (prod(k_i+1) <= 1300). "
        "Non-trivial = the GLPK branch really ran and the optimum is not the all-singletons alignment; distinct = distinct canonical JSON.")
ASSUMPTIONS = ["fault injection is test-side: sys.modules['cylp']=None and a wrapper around cvxpy.Problem.solve",
               "medium cases (up to prod(k_i+1) = 20000) have no exact oracle: only the cross-configuration relation is checked there"]

MODES = ["cbc", "glpk", "cbc_fail", "cylp_broken"]


def check(case):
    cont, spec = case["continuum"], case["dissim"]
    per = oracle.per_annotator(cont)
    c = oracle.build_continuum(cont)
    d = oracle.build_dissim(spec)
    res = {}
    multi = False
    # the fourth configuration (unloadable cylp) costs as much as the others: it is applied to every third case
    import zlib
    modes = MODES if zlib.crc32(oracle.canon(case).encode()) % 3 == 0 else MODES[:3]
    for kind in ("best", "soft"):
        for mode in modes:
            with backends.backend(mode) as used:
                fn = c.get_best_alignment if kind == "best" else c.get_best_soft_alignment
                al = lib_call(f"{kind}-alignment[{mode}]", fn, d)
            if used != backends.expected_solvers(mode):
                raise Violation(f"{kind}:backend-not-as-configured[{mode}]", f"solvers used {used}")
            if kind == "best":
                slots = preds.check_partition(al, per, f"best[{mode}]")
            else:
                slots = preds.check_cover(al, per, f"soft[{mode}]")
            preds.check_reported_disorders(al, slots, spec, per, f"{kind}[{mode}]")
            multi = multi or any(sum(1 for s in sl if s is not None) >= 2 for sl in slots)
            res[(kind, mode)] = float(al.disorder)
        base = res[(kind, "cbc")]
        for mode in modes[1:]:
            if not oracle.close(res[(kind, mode)], base):
                raise Violation(f"{kind}:disorder-differs-across-backends", f"cbc {base} vs {mode} {res[(kind, mode)]}")
    classes = [f"n={len(per)}", f"kind={spec['kind']}"] + (["with-unloadable-cylp"] if len(modes) == 4 else [])
    small = gen.continuum_product(cont) <= 1300
    if small:
        classes.append("with-oracle")
        lst = [per[a] for a in sorted(per)]
        nunits = sum(len(p) for p in lst)
        costs = oracle.all_tuple_costs(spec, lst)
        for kind, cover in (("best", False), ("soft", True)):
            if nunits <= 9:
                up = lo = oracle.optimum_dp(lst, costs, cover)
            else:
                up, lo = oracle.optimum_milp(lst, costs, cover)
            mean = nunits / len(lst)
            for mode in modes:
                v = res[(kind, mode)]
                tol = oracle.REL_TOL * max(1.0, abs(lo / mean))
                if v > up / mean + tol or v < lo / mean - tol:
                    raise Violation(f"{kind}:not-optimal[{mode}]", f"{v} not in [{lo / mean}, {up / mean}]")
    else:
        classes.append("medium-no-oracle")
    if multi:
        classes.append("multi-unit-unitary")
    return {"nontrivial": multi, "classes": classes}


@st.composite
def cases(draw, medium=False):
    if medium:
        return draw(gen.continuum_and_spec(min_ann=2, max_ann=4, budget=20000, max_per=40, unlabelled_ratio=0.1, span=200,
                                           shapes=["random", "clusters", "clusters", "nested", "coincide"]))
    return draw(gen.continuum_and_spec(min_ann=2, max_ann=5, budget=1300, max_per=9, unlabelled_ratio=0.1))


def enum_cases():
    inner = c01.enum_cases(2, ("cbc",))

    def it():
        for k, cs in enumerate(inner()):
            yield {"continuum": cs["continuum"], "dissim": cs["dissim"]}
    return it


def subchecks(tier):
    return [
        Sub(name="small", check=check, strategy=cases(),
            examples={"quick": 120, "thorough": 1500}, shards={"quick": 8, "thorough": 16}),
        Sub(name="medium", check=check, strategy=cases(medium=True),
            examples={"quick": 40, "thorough": 500}, shards={"quick": 8, "thorough": 16}),
        Sub(name="grid2", kind="enum", check=check, cases=enum_cases(), exhaustive=True,
            shards={"quick": 8, "thorough": 16}),
    ]
