"""C07 - candidate unitary alignments are exactly those under the n*delta_empty cut."""
import numpy as np
from hypothesis import strategies as st

from ..common import gen, oracle
from ..common.core import Sub, Violation, lib_call

ID = "C07"
RULE = ("'history': the same continuum and dissimilarity OBJECTS are re-evaluated after in-place edits (replace / add / remove a unit; stale caches); "
        "'ties': equal-length units on an integer grid so that sums land exactly on the cut (decided exactly with rational arithmetic when every pair cost is "
        "float32-exact); 'small': Hypothesis-generated (continuum 2-5 annotators, prod(k_i+1) <= 6000; every dissimilarity class). 'boundary': constructed continua whose "
        "candidate count T is chosen by Hypothesis: a dense block of mutually close units (a0 x b0 [x c0]; every combination passes the cut) plus 'far' units "
        "that only pair with the empty unit (one candidate each), so T = prod(k_i+1) - 1 + far is hit exactly; T is drawn from windows of +-12 around the "
        "buffer sizes 10000, 15000, 22500, 33750 and uniformly up to 36000. Oracle: vectorised float64 enumeration of all index tuples: returned tuples form a "
        "set (no duplicate), never all-empty, indices in range (len(units) = empty), contain every tuple with disorder <= n*delta*(1-1e-5), none with "
        "disorder > n*delta*(1+1e-5), and each carried disorder equals the reference. Non-trivial = some tuple is pruned and some multi-unit tuple is kept; "
        "distinct = distinct canonical JSON.")
ASSUMPTIONS = ["membership is three-valued within 1e-5 relative of the threshold (float32 sums vs float64 reference)",
               "valid_alignments(continuum) is the public observation point; index len(units) denotes the empty unit (documented in the code)"]

BOUNDARIES = [10000, 15000, 20000, 22500, 30000, 33750]   # growth sequence of the buffers and plain multiples of the chunk


def build_boundary(case):
    """expand a boundary case into a continuum dict"""
    n = case["n"]
    block = case["block"][:n]
    names = ["a", "b", "c"][:n]
    units = []
    for a, k in zip(names, block):
        for i in range(k):
            units.append([a, i / 4.0, 4000.0 + i / 4.0, "A"])
    # far units: each one only compatible with empty units
    f = case["far"]
    for j in range(f):
        a = names[j % n]
        s = 1.0e5 + 8192.0 * j
        units.append([a, s, s + 1.0, "A"])
    return {"annotators": names, "units": units}


def check(case):
    if "block" in case:
        cont = build_boundary(case)
    else:
        cont = case["continuum"]
    spec = case["dissim"]
    c = oracle.build_continuum(cont)
    d = oracle.build_dissim(spec)
    info = evaluate(c, d, cont, spec)
    # history: the SAME continuum and dissimilarity objects, edited in place between evaluations
    for edit in case.get("edits", []):
        cont = oracle.apply_edit(c, cont, edit, gen.labels_for(spec))
        info2 = evaluate(c, d, cont, spec, label="after-in-place-edit:")
        info["classes"] = sorted(set(info["classes"]) | {"edited-in-place"})
        info["nontrivial"] = info["nontrivial"] or info2["nontrivial"]
    return info


def evaluate(c, d, cont, spec, label=""):
    per = oracle.per_annotator(cont)
    lst = [per[a] for a in sorted(per)]
    n = len(lst)
    disorders, tuples = lib_call("valid_alignments", d.valid_alignments, c)
    disorders = np.asarray(disorders, dtype=np.float64)
    tuples = np.asarray(tuples)
    if tuples.ndim != 2 or tuples.shape[1] != n or len(disorders) != len(tuples):
        raise Violation(label + "shape", f"tuples {tuples.shape} disorders {disorders.shape} n={n}")
    shape = tuple(len(p) + 1 for p in lst)
    if len(tuples) and (tuples.min() < 0 or np.any(tuples.max(axis=0) >= np.array(shape))):
        raise Violation(label + "index-out-of-range", f"max {tuples.max(axis=0)} sizes {shape}")
    costs = oracle.all_tuple_costs(spec, lst)          # all-empty = +inf
    delta = float(spec["delta"])
    thr = n * delta
    count = np.zeros(shape, dtype=np.int32)
    idx = tuple(tuples[:, k].astype(np.int64) for k in range(n))
    np.add.at(count, idx, 1)
    empty_idx = tuple(s - 1 for s in shape)
    if count[empty_idx] > 0:
        raise Violation(label + "all-empty-candidate", f"all-empty tuple returned {count[empty_idx]} times (T={len(tuples)})")
    if count.max() > 1:
        w = np.argwhere(count > 1)[0]
        raise Violation(label + "duplicate-candidate", f"tuple {tuple(w)} returned {count[tuple(w)]} times (T={len(tuples)})")
    must = costs <= thr * (1 - 1e-5)
    may = costs <= thr * (1 + 1e-5)
    # ties at the cut: three-valued in general, but decided exactly when every pair cost of the tuple is exactly
    # representable in float32 (then the library's arithmetic cannot differ from the rational value)
    band = np.isfinite(costs) & (costs > thr * (1 - 1e-5)) & (costs <= thr * (1 + 1e-5))
    exact_ties = 0
    if band.any() and int(band.sum()) <= 400:
        from fractions import Fraction as F
        c2n = n * (n - 1) // 2
        thr_exact = F(c2n) * F(spec["delta"]) * n
        for w in np.argwhere(band):
            w = tuple(int(x) for x in w)
            slots = [None if w[a] == shape[a] - 1 else lst[a][w[a]] for a in range(n)]
            tot = oracle.exact_tuple_sum(spec, slots)
            if tot is None:
                continue
            exact_ties += 1
            if tot <= thr_exact:
                must[w] = True
            else:
                may[w] = False
    missing = must & (count == 0)
    if missing.any():
        w = tuple(np.argwhere(missing)[0])
        raise Violation(label + "candidate-missing", f"tuple {w} disorder {costs[w]} <= {thr} not returned (T={len(tuples)}, expected >= {int(must.sum())})")
    extra = (count > 0) & ~may
    if extra.any():
        w = tuple(np.argwhere(extra)[0])
        raise Violation(label + "candidate-above-cut", f"tuple {w} disorder {costs[w]} > {thr} returned (T={len(tuples)})")
    ref = costs[idx]
    bad = np.abs(disorders - ref) > oracle.REL_TOL * np.maximum(float(spec["delta"]), np.abs(ref))
    if bad.any():
        k = int(np.argmax(bad))
        raise Violation(label + "candidate-disorder-mismatch", f"tuple {tuple(tuples[k])}: carried {disorders[k]} reference {ref[k]}")
    T = len(tuples)
    pruned = bool(np.isfinite(costs).sum() > int(may.sum()))
    real_counts = np.zeros(shape, dtype=np.int32)
    for ax in range(n):
        sh = [1] * n
        sh[ax] = shape[ax]
        real_counts = real_counts + (np.arange(shape[ax]) < shape[ax] - 1).astype(np.int32).reshape(sh)
    multi_kept = bool(((count > 0) & (real_counts >= 2)).any())
    classes = [f"n={n}", f"kind={spec['kind']}"]
    if exact_ties:
        classes.append("exact-tie-at-cut")
    near = [b for b in BOUNDARIES + [40000, 50000, 50625] if abs((T + 1) - b) <= 12]
    if near:
        classes.append(f"T+1-within-12-of-{near[0]}")
    if T > 25000:
        classes.append("T>25000")
    elif T >= 10000:
        classes.append("T>=10000")
    else:
        classes.append("T<10000")
    return {"nontrivial": pruned and multi_kept, "classes": classes}


@st.composite
def small_cases(draw):
    return draw(gen.continuum_and_spec(min_ann=2, max_ann=5, budget=6000, max_per=14, unlabelled_ratio=0.1, extreme=True))


@st.composite
def boundary_cases(draw, uniform=False, deep=False):
    n = draw(st.sampled_from([2, 2, 3]))
    if uniform:
        target = draw(st.integers(9000, 60000 if deep else 36000))
    else:
        b = draw(st.sampled_from(BOUNDARIES + ([40000, 50000, 50625] if deep else [])))   # deep: the next growth step of the buffers
        target = b - 1 + draw(st.one_of(st.sampled_from([0, 0, -1, 1]), st.integers(-12, 12)))   # T + 1 (with the all-empty tuple) hits b +- 12, often exactly
    # choose block sizes with prod(k+1) - 1 <= target, remainder as far units (bounded)
    if n == 2:
        a0 = draw(st.integers(90, 180)) if target < 36000 else draw(st.integers(150, 240))
        b0 = max(1, min(400, (target + 1) // (a0 + 1) - 1))
        block = [a0, b0]
    else:
        a0 = draw(st.integers(10, 20))
        b0 = draw(st.integers(10, 20))
        c0 = max(1, min(300, (target + 1) // ((a0 + 1) * (b0 + 1)) - 1))
        block = [a0, b0, c0]
    base = int(np.prod([k + 1 for k in block])) - 1
    far = target - base
    far = max(0, min(460, far))
    spec = draw(st.sampled_from([
        {"kind": "pos", "delta": 1.0},
        {"kind": "pos", "delta": 0.5},
        {"kind": "combined", "alpha": 1.0, "beta": 1.0, "delta": 1.0, "pos": None, "cat": None},
        {"kind": "combined", "alpha": 2.0, "beta": 1.0, "delta": 2.0, "pos": None, "cat": None},
    ]))
    return {"n": n, "block": block, "far": far, "dissim": spec}


@st.composite
def tie_cases(draw):
    """equal-length units on a small integer grid: pair costs are small exact rationals, so that sums land EXACTLY on the cut"""
    n = draw(st.sampled_from([2, 2, 3]))
    L = float(draw(st.sampled_from([1, 2, 4])))
    names = ["a", "b", "c"][:n]
    units = []
    for a in names:
        for k in draw(st.lists(st.integers(0, 8), min_size=0 if units else 1, max_size=4, unique=True)):
            units.append([a, k * L / 2 if draw(st.booleans()) else float(k) * L, 0.0, draw(st.sampled_from(["A", "B"]))])
            units[-1][2] = units[-1][1] + L
    spec = draw(st.sampled_from([
        {"kind": "pos", "delta": 1.0}, {"kind": "pos", "delta": 0.5},
        {"kind": "combined", "alpha": 1.0, "beta": 1.0, "delta": 1.0, "pos": None, "cat": None},
        {"kind": "combined", "alpha": 1.0, "beta": 3.0, "delta": 1.0, "pos": None, "cat": None},
        {"kind": "combined", "alpha": 2.0, "beta": 1.0, "delta": 2.0, "pos": None, "cat": None},
        {"kind": "combined", "alpha": 1.0, "beta": 2.0, "delta": 0.5, "pos": None, "cat": None},
        {"kind": "combined", "alpha": 1.0, "beta": 1.0, "delta": 1.0, "pos": None,
         "cat": {"kind": "precomputed", "cats": ["A", "B"], "matrix": [[0.0, 0.5], [0.5, 0.0]], "delta": 1.0}},
    ]))
    return {"continuum": {"annotators": names, "units": units, "shape": "ties"}, "dissim": spec}


@st.composite
def expensive_pair_cases(draw):
    """two short, distant units (annotators 0 and 1) whose pair cost alone is close to the whole cut C(n,2)*n*delta_empty,
    spanned by long units of the other annotators (cheap pairs): tuples whose sum straddles the cut because of ONE pair"""
    n = draw(st.integers(3, 5))
    names = ["a", "b", "c", "d", "e"][:n]
    delta = draw(st.sampled_from([1.0, 1.0, 0.5, 2.0]))
    cut = n * (n - 1) / 2 * n          # in units of delta_empty
    frac = draw(st.integers(55, 108)) / 100.0
    x = (frac * cut) ** 0.5           # (|ds|+|de|)/(sum of durations) for the expensive pair
    w = float(draw(st.sampled_from([1, 2, 4])))           # duration of the short units
    shift = round(x * w * 4) / 4                          # |ds| = |de| = shift -> ratio = 2*shift/(2w) = shift/w
    units = [[names[0], 0.0, w, "A"], [names[1], shift, shift + w, "A"]]
    for a in names[2:]:
        lo = -float(draw(st.integers(0, 2)))
        hi = shift + w + float(draw(st.integers(0, 2)))
        units.append([a, lo, hi, "A"])
    # a few extra units so that the candidate set is not trivial
    for a in names[:2]:
        if draw(st.booleans()):
            s0 = float(draw(st.integers(-40, -20)))
            units.append([a, s0, s0 + w, "A"])
    spec = draw(st.sampled_from([{"kind": "pos", "delta": delta},
                                 {"kind": "combined", "alpha": 1.0, "beta": 1.0, "delta": delta, "pos": None, "cat": None}]))
    return {"continuum": {"annotators": names, "units": units, "shape": "expensive-pair"}, "dissim": spec}


EDIT = st.one_of(
    st.tuples(st.just("replace"), st.integers(0, 50), gen.dyadic(0, 60), gen.dyadic(0.25, 12), st.integers(0, 5)),
    st.tuples(st.just("replace"), st.integers(0, 50), gen.dyadic(0, 60), gen.dyadic(0.25, 12), st.integers(0, 5)),
    st.tuples(st.just("add"), st.integers(0, 4), gen.dyadic(0, 60), gen.dyadic(0.25, 12), st.integers(0, 5)),
    st.tuples(st.just("remove"), st.integers(0, 50)),
).map(list)


@st.composite
def history_cases(draw):
    cs = draw(gen.continuum_and_spec(min_ann=2, max_ann=4, budget=1500, max_per=8, unlabelled_ratio=0.1))
    cs["edits"] = draw(st.lists(EDIT, min_size=1, max_size=4))
    return cs


def subchecks(tier):
    return [
        Sub(name="small", check=check, strategy=small_cases(),
            examples={"quick": 150, "thorough": 2000}, shards={"quick": 8, "thorough": 16}),
        Sub(name="history", check=check, strategy=history_cases(),
            examples={"quick": 100, "thorough": 1500}, shards={"quick": 4, "thorough": 16}),
        Sub(name="expensive-pair", check=check, strategy=expensive_pair_cases(),
            examples={"quick": 100, "thorough": 1500}, shards={"quick": 4, "thorough": 16}),
        Sub(name="ties", check=check, strategy=tie_cases(),
            examples={"quick": 150, "thorough": 2000}, shards={"quick": 4, "thorough": 16}),
        Sub(name="boundary", check=check, strategy=boundary_cases(deep=(tier == "thorough")),
            examples={"quick": 30, "thorough": 200}, shards={"quick": 8, "thorough": 16}),
        Sub(name="large-uniform", check=check, strategy=boundary_cases(uniform=True, deep=(tier == "thorough")),
            examples={"quick": 12, "thorough": 120}, shards={"quick": 8, "thorough": 16}),
    ]
