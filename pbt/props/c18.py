"""C18 - file import and export are faithful."""
import contextlib
import io
import math
import os
import shutil
import tempfile

from hypothesis import strategies as st

from ..common import gen, oracle
from ..common.core import Sub, Violation, lib_call
from ..common.env import import_library

ID = "C18"
RULE = ("'csv-roundtrip': add-only continua, every annotator with >= 1 labelled unit; annotator/label text from st.text() (spaces, quotes, delimiters, unicode, "
        "leading/trailing blanks, CR/LF inside fields, empty label), arbitrary finite float times, any single-character delimiter other than quote/CR/LF/NUL: "
        "from_csv(to_csv(c)) == c with the same categories. 'csv-file': generated CSV text incl. zero-length rows with discard_invalid_rows both ways. "
        "'rttm': generated RTTM text (whitespace-free tokens). 'textgrid': files written with the textgrid library (several interval tiers, empty marks, "
        "unselected point tiers, unicode/quoted marks, tier filters, both label modes). 'elan': files written with pympi (integer milliseconds, XML-special "
        "characters, tier filters, both label modes). Oracle: expected unit set known by construction: exactly one unit per non-empty interval of the selected "
        "tiers, exact times (RTTM: start + duration in float64), label = mark or tier name, under the requested annotator (RTTM: the uri); zero-length rows "
        "dropped or ValueError. Non-trivial = a field needs quoting, or a non-ASCII character, or a tier filter that excludes something; distinct = canonical JSON.")
ASSUMPTIONS = ["RTTM tokens exclude pandas' NA spellings and '#'/quote characters (third-party reader limitation); decimal times with <= 6 significant decimals",
               "TextGrid times have <= 4 decimals (the textgrid library rounds to 5); tier names unique inside one file; point tiers are never selected",
               "ELAN annotations have non-empty values and positive length", "NUL characters and lone surrogates are outside what a CSV/XML text field can hold"]


@contextlib.contextmanager
def workdir():
    d = tempfile.mkdtemp(prefix="c18_")
    try:
        yield d
    finally:
        shutil.rmtree(d, ignore_errors=True)


def model_of(c):
    return sorted(((a, u.segment.start, u.segment.end, u.annotation) for a, u in c), key=lambda t: (t[0], t[1], t[2], t[3] is not None, t[3] or ""))


def expect(c, expected, what, annotators=None):
    got = model_of(c)
    exp = sorted(set(expected), key=lambda t: (t[0], t[1], t[2], t[3] is not None, t[3] or ""))
    if got != exp:
        missing = [x for x in exp if x not in got][:3]
        extra = [x for x in got if x not in exp][:3]
        raise Violation(f"{what}:units-differ", f"missing {missing} unexpected {extra} ({len(got)} read, {len(exp)} expected)")
    cats = sorted(set(x[3] for x in exp if x[3] is not None))
    if list(c.categories) != cats:
        raise Violation(f"{what}:categories-differ", f"{list(c.categories)} vs {cats}")
    if annotators is not None and sorted(c.annotators) != sorted(annotators):
        raise Violation(f"{what}:annotators-differ", f"{list(c.annotators)} vs {sorted(annotators)}")


# ------------------------------------------------------------------ CSV round trip

def check_roundtrip(case):
    pa = import_library()
    from pyannote.core import Segment
    c = pa.Continuum()
    for a, s, e, l in case["units"]:
        c.add(a, Segment(s, e), l)
    delim = case["delimiter"]
    with workdir() as d:
        path = os.path.join(d, "c.csv")
        if case["as_path"]:
            from pathlib import Path
            path = Path(path)
        lib_call("to_csv", c.to_csv, path, delimiter=delim)
        with contextlib.redirect_stdout(io.StringIO()):
            c2 = lib_call("from_csv", pa.Continuum.from_csv, path, delimiter=delim)
    if not (c2 == c) or (c2 != c):
        raise Violation("roundtrip:not-equal", f"wrote {model_of(c)[:4]} read {model_of(c2)[:4]} delimiter {delim!r}")
    if list(c2.categories) != list(c.categories):
        raise Violation("roundtrip:categories-differ", f"{list(c.categories)} vs {list(c2.categories)}")
    expect(c2, [(a, s, e, l) for a, s, e, l in case["units"]], "roundtrip")
    text = "".join(f"{a}{l}" for a, s, e, l in case["units"])
    special = any(ch in text for ch in (delim, '"', "\n", "\r")) or text != text.strip()
    nonascii = any(ord(ch) > 127 for ch in text)
    classes = []
    if special:
        classes.append("needs-quoting")
    if nonascii:
        classes.append("non-ascii")
    if "\r" in text:
        classes.append("carriage-return-in-field")
    if delim != ",":
        classes.append("delimiter!=comma")
    return {"nontrivial": special or nonascii, "classes": classes}


# ------------------------------------------------------------------ generated CSV files

def check_csv_file(case):
    import csv
    pa = import_library()
    rows = case["rows"]
    delim = case["delimiter"]
    with workdir() as d:
        path = os.path.join(d, "in.csv")
        with open(path, "w", newline="", encoding="utf-8") as f:
            w = csv.writer(f, delimiter=delim)
            for a, l, s, e in rows:
                w.writerow([a, l, s, e])
        zero = [r for r in rows if float(r[2]) == float(r[3])]
        expected = [(a, float(s), float(e), l) for a, l, s, e in rows if float(s) != float(e)]
        classes = ["has-zero-length-row" if zero else "no-zero-length-row", f"discard={case['discard']}"]
        buf = io.StringIO()
        try:
            with contextlib.redirect_stdout(buf):
                c = pa.Continuum.from_csv(path, discard_invalid_rows=case["discard"], delimiter=delim)
        except ValueError as e:
            if zero and not case["discard"]:
                return {"nontrivial": True, "classes": classes + ["rejected"]}
            raise Violation("csv-file:raises:ValueError", repr(e))
        except Exception as e:
            raise Violation(f"csv-file:raises:{type(e).__name__}", repr(e))
    if zero and not case["discard"]:
        raise Violation("csv-file:zero-length-row-not-rejected", f"rows {zero[:2]}")
    expect(c, expected, "csv-file", annotators={x[0] for x in expected})
    return {"nontrivial": bool(zero) or delim != ",", "classes": classes}


# ------------------------------------------------------------------ RTTM

def check_rttm(case):
    pa = import_library()
    lines = []
    expected = []
    for uri, start, dur, spk in case["rows"]:
        lines.append(f"SPEAKER {uri} 1 {start} {dur} <NA> <NA> {spk} <NA> <NA>")
        s = float(start)
        expected.append((uri, s, s + float(dur), spk))
    for uri, start, dur, spk in case.get("other_type_rows", []):
        lines.append(f"LEXEME {uri} 1 {start} {dur} <NA> <NA> {spk} <NA> <NA>")
    with workdir() as d:
        path = os.path.join(d, "in.rttm")
        with open(path, "w", encoding="utf-8") as f:
            f.write("\n".join(lines) + "\n")
        c = lib_call("from_rttm", pa.Continuum.from_rttm, path if not case["as_path"] else __import__("pathlib").Path(path))
    expect(c, expected, "rttm", annotators={r[0] for r in case["rows"]})
    text = "".join(r[0] + r[3] for r in case["rows"])
    return {"nontrivial": any(ord(ch) > 127 for ch in text) or len({r[0] for r in case["rows"]}) > 1, "classes": [f"uris={len({r[0] for r in case['rows']})}"]}


# ------------------------------------------------------------------ TextGrid

def check_textgrid(case):
    pa = import_library()
    import textgrid as tgl
    with workdir() as d:
        path = os.path.join(d, "in.TextGrid")
        tg = tgl.TextGrid(minTime=0.0, maxTime=case["max_time"])
        for tier in case["tiers"]:
            if tier["kind"] == "interval":
                t = tgl.IntervalTier(name=tier["name"], minTime=0.0, maxTime=case["max_time"])
                for s, e, mark in tier["intervals"]:
                    t.add(s, e, mark)
            else:
                t = tgl.PointTier(name=tier["name"], minTime=0.0, maxTime=case["max_time"])
                for p, mark in tier["points"]:
                    t.add(p, mark)
            tg.append(t)
        if case.get("rewrite"):
            # history: ANOTHER file was read from the same path earlier in this process
            old = tgl.TextGrid(minTime=0.0, maxTime=50.0)
            t0 = tgl.IntervalTier(name=case["tiers"][0]["name"], minTime=0.0, maxTime=50.0)
            t0.add(1.0, 2.0, "old-content")
            t0.add(40.0, 41.5, "old-content-2")
            old.append(t0)
            old.write(path)
            c_old = pa.Continuum()
            c_old.add_textgrid(case["annotator"], path)
        tg.write(path)
        interval_names = [t["name"] for t in case["tiers"] if t["kind"] == "interval"]
        sel = case["selected"]
        if sel is None and any(t["kind"] == "point" for t in case["tiers"]):
            sel = interval_names            # point tiers are never selected (see ASSUMPTIONS)
        c = pa.Continuum()
        lib_call("add_textgrid", c.add_textgrid, case["annotator"], path, selected_tiers=sel, use_tier_as_annotation=case["tier_as_label"])
    expected = []
    for tier in case["tiers"]:
        if tier["kind"] != "interval" or (sel is not None and tier["name"] not in sel):
            continue
        for s, e, mark in tier["intervals"]:
            if mark:
                expected.append((case["annotator"], s, e, tier["name"] if case["tier_as_label"] else mark))
    expect(c, expected, "textgrid")
    excluded = sel is not None and any(t["name"] not in sel for t in case["tiers"])
    text = "".join(m for t in case["tiers"] if t["kind"] == "interval" for _, _, m in t["intervals"])
    classes = ["tier-as-label" if case["tier_as_label"] else "mark-as-label"]
    if excluded:
        classes.append("filter-excludes")
    if any(t["kind"] == "point" for t in case["tiers"]):
        classes.append("has-point-tier")
    return {"nontrivial": excluded or any(ord(ch) > 127 for ch in text) or '"' in text, "classes": classes}


# ------------------------------------------------------------------ ELAN

def check_elan(case):
    pa = import_library()
    import pympi
    with workdir() as d:
        path = os.path.join(d, "in.eaf")
        with contextlib.redirect_stdout(io.StringIO()), contextlib.redirect_stderr(io.StringIO()):
            eaf = pympi.Eaf()
            eaf.remove_tier("default")
            for tier in case["tiers"]:
                eaf.add_tier(tier["name"])
                for s, e, v in tier["annotations"]:
                    eaf.add_annotation(tier["name"], s, e, v)
            if case.get("rewrite"):
                old = pympi.Eaf()
                old.remove_tier("default")
                old.add_tier(case["tiers"][0]["name"])
                old.add_annotation(case["tiers"][0]["name"], 10, 999, "old-content")
                old.to_file(path)
                c_old = pa.Continuum()
                c_old.add_elan(case["annotator"], path)
                os.remove(path)
            eaf.to_file(path)
            c = pa.Continuum()
            lib_call("add_elan", c.add_elan, case["annotator"], path, selected_tiers=case["selected"], use_tier_as_annotation=case["tier_as_label"])
    sel = case["selected"]
    expected = []
    for tier in case["tiers"]:
        if sel is not None and tier["name"] not in sel:
            continue
        for s, e, v in tier["annotations"]:
            expected.append((case["annotator"], s, e, tier["name"] if case["tier_as_label"] else v))
    expect(c, expected, "elan")
    excluded = sel is not None and any(t["name"] not in sel for t in case["tiers"])
    text = "".join(v for t in case["tiers"] for _, _, v in t["annotations"])
    classes = ["tier-as-label" if case["tier_as_label"] else "value-as-label"]
    if excluded:
        classes.append("filter-excludes")
    return {"nontrivial": excluded or any(ch in text for ch in "<>&\"'") or any(ord(ch) > 127 for ch in text), "classes": classes}


# ------------------------------------------------------------------ strategies

TEXT = st.text(alphabet=st.characters(blacklist_categories=("Cs",), blacklist_characters="\x00"), min_size=0, max_size=8)
NASTY = st.sampled_from(["a,b", 'say "hi"', " lead", "trail ", "x\ny", "x\r\ny", "x\ry", "é", "日本", "a;b", "a\tb", "'", '""', ",", "\r", "\n", " "])
FIELD = st.one_of(TEXT, NASTY, st.sampled_from(["A", "B", "Noun", "annotator_1"]))
TIME = st.one_of(gen.dyadic(-100, 1000), st.floats(-1e6, 1e6, allow_nan=False, allow_infinity=False), st.sampled_from([11.3, 15.6, 0.1, 1 / 3, 1e-3, 123456.789]))


@st.composite
def roundtrip_cases(draw):
    n = draw(st.integers(1, 4))
    names = draw(st.lists(FIELD, min_size=n, max_size=n, unique=True))
    units = []
    for a in names:
        for _ in range(draw(st.integers(1, 4))):
            s = draw(TIME)
            d = draw(st.one_of(gen.dyadic(0.25, 50), st.floats(1e-3, 1e4, allow_nan=False)))
            e = s + d
            if e == s:
                e = s + 1.0
            units.append([a, s, e, draw(FIELD)])
    delim = draw(st.one_of(st.sampled_from([",", ",", ";", "\t", "|", " ", ".", "e", "-", "1"]),
                           st.characters(blacklist_categories=("Cs",), blacklist_characters='"\r\n\x00')))
    return {"units": units, "delimiter": delim, "as_path": draw(st.booleans())}


@st.composite
def csv_file_cases(draw):
    rows = []
    for _ in range(draw(st.integers(1, 8))):
        a = draw(st.sampled_from(["ann1", "ann 2", "é", "x,y"]))
        l = draw(st.sampled_from(["A", "B", "", 'q"q', "long label"]))
        s = draw(st.sampled_from(["0", "1.5", "11.3", "2e1", " 3.25", "-4"]))
        if draw(st.integers(0, 3)) == 0:
            e = s
        else:
            e = repr(float(s) + draw(st.sampled_from([0.25, 1.0, 7.5, 0.1])))
        rows.append([a, l, s, e])
    return {"rows": rows, "delimiter": draw(st.sampled_from([",", ";", "\t", "|"])), "discard": draw(st.booleans())}


TOKEN_ALPHABET = st.characters(whitelist_categories=("Lu", "Ll", "Nd", "Lo"), max_codepoint=0x2FFF)
NA_TOKENS = {"", "#N/A", "#N/A N/A", "#NA", "-1.#IND", "-1.#QNAN", "-NaN", "-nan", "1.#IND", "1.#QNAN", "<NA>", "N/A", "NA", "NULL", "NaN", "None", "n/a", "nan", "null"}


@st.composite
def rttm_cases(draw):
    tok = st.text(alphabet=TOKEN_ALPHABET, min_size=1, max_size=6).filter(lambda t: t not in NA_TOKENS and not t.replace(".", "").isdigit())
    uris = draw(st.lists(st.one_of(st.sampled_from(["file1", "rec_02", "été"]), tok), min_size=1, max_size=3, unique=True))
    rows = []
    for uri in uris:
        for _ in range(draw(st.integers(1, 5))):
            start = draw(st.sampled_from(["0", "0.5", "11.3", "15.6", "7", "100.125", "3.141", "0.000"]))
            dur = draw(st.sampled_from(["0.25", "1", "2.5", "0.3", "10", "0.125", "4.7"]))
            spk = draw(st.one_of(st.sampled_from(["spk1", "Marvin", "A"]), tok))
            rows.append([uri, start, dur, spk])
    other = [[uris[0], "1", "1", "zzz"]] if draw(st.booleans()) else []
    return {"rows": rows, "other_type_rows": other, "as_path": draw(st.booleans())}


MARK = st.one_of(st.sampled_from(["", "", "a", "Maureen", 'he said "x"', "é à", "日本語", "a b c", "  pad  "]),
                 st.text(alphabet=st.characters(blacklist_categories=("Cs", "Cc"), blacklist_characters="\x00"), min_size=0, max_size=6))


@st.composite
def textgrid_cases(draw):
    ntiers = draw(st.integers(1, 4))
    names = draw(st.lists(st.sampled_from(["words", "phones", "Maureen", "tier 3", "é", "notes", "X"]), min_size=ntiers, max_size=ntiers, unique=True))
    tiers = []
    tmax = 0.0
    for nm in names:
        if draw(st.integers(0, 4)) == 0:
            pts = sorted(set(draw(st.lists(st.integers(1, 400).map(lambda k: k / 4), min_size=0, max_size=3))))
            tiers.append({"kind": "point", "name": nm, "points": [[p, "pt"] for p in pts]})
            tmax = max([tmax] + pts)
            continue
        t = draw(st.integers(0, 8)) / 4
        ivs = []
        for _ in range(draw(st.integers(0, 5))):
            d = draw(st.sampled_from([0.25, 0.5, 1.0, 2.75, 0.1234, 10.0]))
            ivs.append([round(t, 4), round(t + d, 4), draw(MARK)])
            t = round(t + d + draw(st.sampled_from([0.0, 0.0, 0.5, 1.25])), 4)
        tiers.append({"kind": "interval", "name": nm, "intervals": ivs})
        tmax = max(tmax, t)
    interval_names = [t["name"] for t in tiers if t["kind"] == "interval"]
    sel = None
    if draw(st.booleans()):
        sel = draw(st.lists(st.sampled_from(interval_names + ["absent-tier"]), unique=True, max_size=3)) if interval_names else ["absent-tier"]
    return {"tiers": tiers, "max_time": tmax + 1.0, "annotator": draw(st.sampled_from(["Robin", "ann 1", "é"])),
            "selected": sel, "tier_as_label": draw(st.booleans()), "rewrite": draw(st.booleans())}


VALUE = st.one_of(st.sampled_from(["a", "x < y", "R&D", '"q"', "l'été", "日本", "a b", "<tag>"]),
                  st.text(alphabet=st.characters(blacklist_categories=("Cs", "Cc"), blacklist_characters="\x00"), min_size=1, max_size=6).filter(lambda s: s.strip() != ""))


@st.composite
def elan_cases(draw):
    ntiers = draw(st.integers(1, 4))
    names = draw(st.lists(st.sampled_from(["words", "phones", "Marvin", "tier 3", "é", "R&D"]), min_size=ntiers, max_size=ntiers, unique=True))
    tiers = []
    for nm in names:
        anns = []
        t = draw(st.integers(0, 2000))
        for _ in range(draw(st.integers(0, 5))):
            d = draw(st.integers(1, 5000))
            anns.append([t, t + d, draw(VALUE)])
            t = t + d + draw(st.integers(0, 3000))
        tiers.append({"name": nm, "annotations": anns})
    sel = None
    if draw(st.booleans()):
        sel = draw(st.lists(st.sampled_from(names + ["absent-tier"]), unique=True, max_size=3))
    return {"tiers": tiers, "annotator": draw(st.sampled_from(["Robin", "ann 1", "é"])), "selected": sel, "tier_as_label": draw(st.booleans()),
            "rewrite": draw(st.booleans())}


def subchecks(tier):
    return [
        Sub(name="csv-roundtrip", check=check_roundtrip, strategy=roundtrip_cases(),
            examples={"quick": 1200, "thorough": 10000}, shards={"quick": 8, "thorough": 16}),
        Sub(name="csv-file", check=check_csv_file, strategy=csv_file_cases(),
            examples={"quick": 500, "thorough": 3000}, shards={"quick": 4, "thorough": 16}),
        Sub(name="rttm", check=check_rttm, strategy=rttm_cases(),
            examples={"quick": 300, "thorough": 2500}, shards={"quick": 4, "thorough": 16}),
        Sub(name="textgrid", check=check_textgrid, strategy=textgrid_cases(),
            examples={"quick": 400, "thorough": 3000}, shards={"quick": 4, "thorough": 16}),
        Sub(name="elan", check=check_elan, strategy=elan_cases(),
            examples={"quick": 300, "thorough": 2500}, shards={"quick": 4, "thorough": 16}),
    ]
