"""C11 - the soft alignment is a minimum-disorder cover."""
from hypothesis import strategies as st

from ..common import gen, oracle, preds, backends
from ..common.core import Sub, Violation, lib_call
from . import c01, c02

ID = "C11"
RULE = ("case = (continuum with an exact cover oracle: n>=2, prod(k_i+1) <= 1300; dissimilarity spec; back-end cbc|glpk), Hypothesis-generated, "
        "plus the exhaustive C01 grid. Oracle: soft alignment is a cover (every (annotator, unit) >= 1 time) made of well-formed, pairwise distinct "
        "unitary alignments over the continuum's own units; its disorder lies in [lower - tol, upper + tol] of the minimum over ALL covers "
        "(unpruned candidates; bitmask DP <= 9 units, HiGHS MILP with >=1 rows otherwise); soft <= best + tol. "
        "Non-trivial = n >= 3 with a multi-unit unitary alignment, or some unit is used twice (soft < best); distinct = distinct canonical JSON.")
ASSUMPTIONS = c02.ASSUMPTIONS + ["a repeated identical unitary alignment inside a soft alignment is treated as malformed (it can only add cost)"]


def check(case):
    with oracle.scale_floor(case["dissim"]["delta"]):
        return _check(case)


def _check(case):
    info = c02.check(case, cover=True)
    cont, spec, mode = case["continuum"], case["dissim"], case.get("backend", "cbc")
    c = oracle.build_continuum(cont)
    d = oracle.build_dissim(spec)
    with backends.backend(mode):
        best = lib_call("best-alignment", c.get_best_alignment, d)
    # history: the same objects again (state carried by the dissimilarity or the continuum between calls)
    with backends.backend(mode):
        soft2 = lib_call("soft-alignment[second call]", c.get_best_soft_alignment, d)
        best2 = lib_call("best-alignment[second call]", c.get_best_alignment, d)
    if not oracle.close(float(soft2.disorder), info["lib"], rel=1e-6):
        raise Violation("soft-disorder-changes-between-identical-calls", f"{info['lib']} then {float(soft2.disorder)}")
    if not oracle.close(float(best2.disorder), float(best.disorder), rel=1e-6):
        raise Violation("best-disorder-changes-between-identical-calls", f"{float(best.disorder)} then {float(best2.disorder)}")
    per0 = oracle.per_annotator(cont)
    preds.check_reported_disorders(best2, preds.check_partition(best2, per0, "best[second call]"), spec, per0, "best[second call]")
    preds.check_reported_disorders(soft2, preds.check_cover(soft2, per0, "soft[second call]"), spec, per0, "soft[second call]")
    soft_d, best_d = info["lib"], float(best.disorder)
    if soft_d > best_d + oracle.REL_TOL * max(float(spec["delta"]), abs(best_d)):
        raise Violation("soft-exceeds-best", f"soft {soft_d} > best {best_d}")
    per = oracle.per_annotator(cont)
    cnt = oracle.occurrence_counts(info["slots"], per.keys())
    twice = any(v > 1 for v in cnt.values())
    classes = list(info["classes"])
    if twice:
        classes.append("unit-used-twice")
    if cnt and max(cnt.values()) > max(len(v) for v in per.values()):
        classes.append("unit-repeated-more-than-max-units-per-annotator")
    if soft_d < best_d - 1e-6:
        classes.append("soft<best")
    multi = "multi-unit-unitary" in classes
    return {"nontrivial": twice or (len(per) >= 3 and multi), "classes": classes}


@st.composite
def hub(draw):
    """one annotator with a single long unit facing several short, mutually distant units of the other annotators:
    the minimum cover repeats the long unit once per short unit (more often than any annotator has units)"""
    n = draw(st.integers(3, 4))
    names = ["a", "b", "c", "d"][:n]
    L = float(draw(st.sampled_from([64, 100, 128])))
    units = [[names[0], 0.0, L, "A"]]
    for i, a in enumerate(names[1:]):
        k = draw(st.integers(2, 3))
        for j in range(k):
            pos = (i * 3 + j + 0.5) * L / (3 * (n - 1))
            w = float(draw(st.sampled_from([2, 4, 6])))
            units.append([a, round(pos * 4) / 4, round(pos * 4) / 4 + w, draw(st.sampled_from(["A", "B"]))])
    spec = draw(st.sampled_from([{"kind": "pos", "delta": 1.0}, {"kind": "pos", "delta": 2.0},
                                 {"kind": "combined", "alpha": 1.0, "beta": 0.0, "delta": 1.0, "pos": None, "cat": None},
                                 {"kind": "combined", "alpha": 1.0, "beta": 0.25, "delta": 1.0, "pos": None, "cat": None}]))
    return {"continuum": {"annotators": names, "units": units, "shape": "hub"}, "dissim": spec}


@st.composite
def cases(draw):
    if draw(st.integers(0, 5)) == 0:
        cs = draw(hub())
        cs["backend"] = draw(st.sampled_from(["cbc", "cbc", "glpk"]))
        cs["xcheck"] = 0
        return cs
    cs = draw(gen.continuum_and_spec(min_ann=2, max_ann=5, budget=1300, max_per=9, unlabelled_ratio=0.1, extreme=True))
    cs["backend"] = draw(st.sampled_from(["cbc", "cbc", "glpk"]))
    cs["xcheck"] = draw(st.sampled_from([0, 0, 0, 1]))
    return cs


def subchecks(tier):
    subs = [
        Sub(name="random", check=check, strategy=cases(),
            examples={"quick": 250, "thorough": 2500}, shards={"quick": 8, "thorough": 16}),
        Sub(name="grid2", kind="enum", check=check, cases=c01.enum_cases(2), exhaustive=True,
            shards={"quick": 8, "thorough": 16}),
    ]
    if tier == "thorough":
        subs.append(Sub(name="grid3", kind="enum", check=check, cases=c01.enum_cases(3, ("cbc",)), exhaustive=True,
                        shards={"quick": 8, "thorough": 16}, budget_s={"quick": 150, "thorough": 3000}))
    return subs
