"""C20 - command-line results equal the API results for the same options."""
import ast
import contextlib
import csv
import io
import json
import math
import os
import shutil
import sys
import tempfile

import numpy as np
from hypothesis import strategies as st

from ..common import gen, oracle
from ..common.core import Sub, Violation
from ..common.env import import_library, HarnessError

ID = "C20"
RULE = ("case = (1-3 generated input files: small CSV continua (2-3 annotators, numeric labels for -d numerical, free text otherwise) or RTTM files; option set over "
        "-a -b -e -p -n -d -m -c -k --seed -s; output mode stdout | -o csv | -j json; file or single-file directory arguments). The CLI entry point pygamma_cmd runs "
        "in-process with a patched sys.argv. Oracle (differential): the library API called with the same seed, per file in the same order, with "
        "CombinedCategoricalDissimilarity(alpha, beta, delta_empty, categorical dissimilarity per -d), sampler per -m, precision, n_samples, fast=True; numbers "
        "parsed from stdout / the CSV report (ast.literal_eval of the gamma-k cell, as the repository's own CLI test does) / the JSON report equal the API values "
        "within 1e-6 relative for every file; a crash of one output mode is a violation. Non-trivial = >= 1 non-default option and some gamma != 1; "
        "distinct = canonical JSON.")
ASSUMPTIONS = ["--seed is always given (results are otherwise not comparable)", "directory arguments hold a single file (directory iteration order is OS-defined)",
               "labels contain no quote characters (the printed gamma-k('c') line would be ambiguous)"]


@contextlib.contextmanager
def workdir():
    d = tempfile.mkdtemp(prefix="c20_")
    try:
        yield d
    finally:
        shutil.rmtree(d, ignore_errors=True)


def write_inputs(case, d):
    paths = []
    for i, f in enumerate(case["files"]):
        if case["format"] == "csv":
            p = os.path.join(d, f"in{i}.csv")
            with open(p, "w", newline="", encoding="utf-8") as fh:
                w = csv.writer(fh, delimiter=case["sep"])
                for _rep in range(f.get("repeat", 1)):       # repeated rows: the same continuum, much slower to parse
                    for a, s, e, l in f["units"]:
                        w.writerow([a, l, s, e])
        else:
            p = os.path.join(d, f"in{i}.rttm")
            with open(p, "w", encoding="utf-8") as fh:
                for a, s, e, l in f["units"]:
                    fh.write(f"SPEAKER {a} 1 {s} {e - s} <NA> <NA> {l} <NA> <NA>\n")
        if f.get("in_dir"):
            sub = os.path.join(d, f"dir{i}")
            os.mkdir(sub)
            q = os.path.join(sub, os.path.basename(p))
            os.rename(p, q)
            paths.append((sub, q))
        else:
            paths.append((p, p))
    return paths


def api_results(case, paths):
    pa = import_library()
    o = case["opts"]
    np.random.seed(case["seed"])
    out = []
    for _, real in paths:
        if case["format"] == "csv":
            with contextlib.redirect_stdout(io.StringIO()):
                c = pa.Continuum.from_csv(real, delimiter=case["sep"])
        else:
            c = pa.Continuum.from_rttm(real)
        cat = None
        if o["d"] == "levenshtein":
            cat = pa.LevenshteinCategoricalDissimilarity(c.categories)
        elif o["d"] == "numerical":
            cat = pa.NumericalCategoricalDissimilarity(c.categories)
        dis = pa.CombinedCategoricalDissimilarity(alpha=o["a"], beta=o["b"], delta_empty=o["e"], cat_dissim=cat)
        smp = pa.ShuffleContinuumSampler() if o["m"] else None
        g = c.compute_gamma(dissimilarity=dis, precision_level=o["p"], fast=True, sampler=smp, n_samples=o["n"])
        r = {"gamma": float(g.gamma)}
        if o["c"]:
            r["gamma-cat"] = float(g.gamma_cat)
        if o["k"]:
            r["gamma-k"] = {str(cat_): float(g.gamma_k(cat_)) for cat_ in c.categories}
        out.append(r)
    return out


def run_cli(argv):
    import pygamma_agreement.cli_apps as cli
    old = sys.argv
    buf = io.StringIO()
    sys.argv = ["pygamma-agreement"] + argv
    try:
        with contextlib.redirect_stdout(buf):
            cli.pygamma_cmd()
    except SystemExit as e:
        if e.code not in (0, None):
            raise Violation("cli:exits-nonzero", f"exit {e.code} for {argv}")
    except Violation:
        raise
    except Exception as e:
        from ..common.core import lib_frame
        raise Violation(f"cli:raises:{type(e).__name__}@{lib_frame(e)}", f"{e!r} for argv {argv}")
    finally:
        sys.argv = old
    return buf.getvalue()


def parse_cell(cell):
    """a number or a dict literal; infinities and NaN (gamma with a zero expected disorder) are numbers too"""
    try:
        return float(cell)
    except ValueError:
        pass
    try:
        return ast.literal_eval(cell)
    except ValueError:
        import re
        if re.fullmatch(r"[\s\w'\"{}:,.+\-]*", cell) and "__" not in cell:
            return eval(cell, {"__builtins__": {}}, {"inf": math.inf, "nan": math.nan})   # only reached for dicts holding inf / nan
        raise


def same(a, b):
    if isinstance(a, float) and isinstance(b, float) and math.isnan(a) and math.isnan(b):
        return True
    return oracle.close(float(a), float(b), rel=1e-6)


def check(case):
    o = case["opts"]
    with workdir() as d:
        paths = write_inputs(case, d)
        argv = [p for p, _ in paths]
        argv += ["--seed", str(case["seed"])]
        if case["format"] == "rttm":
            argv += ["-f", "rttm"]
        if case["sep"] != ",":
            argv += ["-s", case["sep"]]
        defaults = {"a": 1, "b": 1, "e": 1, "p": 0.05, "n": 30, "d": "absolute"}
        for k, flag in (("a", "-a"), ("b", "-b"), ("e", "-e"), ("p", "-p"), ("n", "-n"), ("d", "-d")):
            if o[k] != defaults[k] or case.get("explicit_defaults"):
                argv += [flag, str(o[k])]
        for k, flag in (("m", "-m"), ("c", "-c"), ("k", "-k")):
            if o[k]:
                argv.append(flag)
        mode = case["output"]
        outp = None
        if mode == "csv":
            outp = os.path.join(d, "report.csv")
            argv += ["-o", outp]
        elif mode == "json":
            outp = os.path.join(d, "report.json")
            argv += ["-j", outp]
        # the global NumPy RNG is put in an unrelated state first: a command line that fails to apply --seed must
        # not be rescued by the state the test driver happens to leave behind (Hypothesis seeds it with 0)
        np.random.seed((case["seed"] * 7919 + 987654321) % (2 ** 32))
        stdout = run_cli(argv)
        ref = api_results(case, paths)
        # ---- parse the CLI's results
        got = []
        if mode == "print":
            cur = None
            for line in stdout.splitlines():
                if line.startswith("gamma="):
                    cur = {"gamma": float(line.split("=", 1)[1])}
                    got.append(cur)
                elif line.startswith("gamma-cat=") and cur is not None:
                    cur["gamma-cat"] = float(line.split("=", 1)[1])
                elif line.startswith("gamma-k('") and cur is not None:
                    name, val = line[len("gamma-k('"):].rsplit("')=", 1)
                    cur.setdefault("gamma-k", {})[name] = float(val)
        elif mode == "csv":
            try:
                with open(outp, newline="", encoding="utf-8") as fh:
                    rows = list(csv.reader(fh, delimiter=case["sep"]))
            except OSError as e:
                raise Violation("csv-report:not-written", repr(e))
            header, body = rows[0], rows[1:]
            for row in body:
                r = {}
                for name, cell in zip(header[1:], row[1:]):
                    try:
                        r[name] = parse_cell(cell)
                    except Exception as e:
                        raise Violation("csv-report:cell-not-a-literal", f"column {name!r}: {cell!r} ({type(e).__name__})")
                got.append(r)
        else:
            try:
                with open(outp, encoding="utf-8") as fh:
                    data = json.load(fh)
            except (OSError, ValueError) as e:
                raise Violation("json-report:not-readable", repr(e))
            for p, _ in paths:
                # the CLI keys results by the path of the file it read
                key = [k for k in data if os.path.basename(k) == os.path.basename(_)]
                if not key:
                    raise Violation("json-report:file-missing", f"{_} not in {list(data)}")
                got.append(data[key[0]])
    if len(got) != len(ref):
        raise Violation(f"{mode}:result-count", f"{len(got)} results for {len(ref)} files; stdout {stdout[:300]!r}")
    for i, (g, r) in enumerate(zip(got, ref)):
        if set(g) != set(r):
            raise Violation(f"{mode}:fields", f"file {i}: {sorted(g)} vs {sorted(r)}")
        for key in r:
            if key == "gamma-k":
                if set(g[key]) != set(r[key]):
                    raise Violation(f"{mode}:gamma-k-categories", f"file {i}: {sorted(g[key])} vs {sorted(r[key])}")
                for cat_ in r[key]:
                    if not same(g[key][cat_], r[key][cat_]):
                        raise Violation(f"{mode}:gamma-k-differs-from-api", f"file {i} category {cat_!r}: CLI {g[key][cat_]} API {r[key][cat_]} argv {argv[len(paths):]}")
            elif not same(g[key], r[key]):
                raise Violation(f"{mode}:{key}-differs-from-api", f"file {i}: CLI {g[key]} API {r[key]} argv {argv[len(paths):]}")
    nondefault = [k for k in ("a", "b", "e", "d", "m") if o[k] != {"a": 1, "b": 1, "e": 1, "d": "absolute", "m": False}[k]]
    classes = [f"output={mode}", f"format={case['format']}", f"files={len(paths)}", f"d={o['d']}"] + [f"opt-{k}" for k in nondefault]
    return {"nontrivial": bool(nondefault) and any(abs(r["gamma"] - 1) > 1e-9 for r in ref), "classes": classes}


@st.composite
def cases(draw):
    fmt = draw(st.sampled_from(["csv", "csv", "csv", "rttm"]))
    dkind = draw(st.sampled_from(["absolute", "absolute", "numerical", "numerical", "levenshtein"]))
    labels = {"absolute": ["A", "B", "C"], "numerical": ["1", "2", "10", "9", "30"], "levenshtein": ["cat", "cart", "dog", "dig", "horse"]}[dkind]
    files = []
    for _ in range(draw(st.integers(1, 3))):
        n = draw(st.integers(2, 3))
        names = ["ann1", "ann2", "x"][:n]
        units = []
        for a in names:
            t = draw(gen.dyadic(0, 5))
            for _u in range(draw(st.integers(2, 5))):
                dd = draw(gen.dyadic(1, 6))
                units.append([a, t, t + dd, draw(st.sampled_from(labels))])
                t += dd + draw(gen.dyadic(0.25, 4))
        files.append({"units": units, "in_dir": draw(st.integers(0, 5)) == 0})
    if len(files) > 1 and fmt == "csv" and draw(st.integers(0, 4)) == 0:
        files[0]["repeat"] = 1500      # a first file that takes far longer to read than the following ones
    opts = {
        "a": draw(st.sampled_from([1, 1, 0.5, 2.0, 0.0, 3.0])),
        "b": draw(st.sampled_from([1, 1, 0.5, 2.0, 3.0, 0.0])),
        "e": draw(st.sampled_from([1, 1, 0.5, 2.0])),
        "p": draw(st.sampled_from([0.3, 0.5, 0.4, 0.9])),
        "n": draw(st.integers(2, 6)),
        "d": dkind,
        "m": draw(st.booleans()), "c": draw(st.booleans()), "k": draw(st.booleans()),
    }
    if draw(st.integers(0, 29)) == 0:
        # options left at their documented defaults: -n 30 and a precision that stays cheap (the default 0.05 means
        # thousands of samples, ~100 s per run)
        opts["n"] = 30
        files = files[:1]
    return {"format": fmt, "files": files, "opts": opts, "sep": draw(st.sampled_from([",", ",", ";", "|"])) if fmt == "csv" else ",",
            "output": draw(st.sampled_from(["print", "csv", "json"])), "seed": draw(st.one_of(st.sampled_from([0, 0, 1]), st.integers(0, 2 ** 31 - 1))),
            "explicit_defaults": draw(st.booleans())}


def subchecks(tier):
    return [
        Sub(name="cli-vs-api", check=check, strategy=cases(),
            examples={"quick": 40, "thorough": 500}, shards={"quick": 8, "thorough": 16}),
    ]
