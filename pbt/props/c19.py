"""C19 - corpus shuffling yields valid corpora and each perturbation is confined."""
import numpy as np
from hypothesis import strategies as st

from ..common import gen, oracle
from ..common.core import Sub, Violation, lib_call
from ..common.env import import_library

ID = "C19"
RULE = ("case = (single-annotator labelled reference with 1-12 units, optionally units sharing a segment with different labels; magnitude in {0, 1} or [0, 1]; "
        "1-4 generated annotators or explicit names; extra categories or none; NumPy seed). 'corpus': corpus_shuffle with every combination of the 6 flags "
        "(shift, false_pos, false_neg, split, cat_shuffle, include_ref; the flag set is part of the case, all 64 occur): annotators exactly as requested "
        "(+ reference when asked), none empty, all durations > 0, categories within the reference's (+ supplied extras), magnitude 0 => every annotator equals "
        "the reference unit for unit. 'single': each *_shuffle applied alone to corpus_from_reference: category shuffle keeps each annotator's set of segments "
        "(and the count when reference segments are distinct); split keeps each annotator's total duration (1e-9 relative) and adds exactly "
        "int(m*2.5*mean units) units; false negatives only remove (never all); false positives only add; shift keeps the number of units and the labels. "
        "Non-trivial = magnitude > 0, >= 1 perturbation and >= 2 reference units; distinct = canonical JSON.")
ASSUMPTIONS = ["measure-zero coincidences (a shifted / split piece landing exactly on another unit) are detected and counted as trivial, not asserted"]

FLAGS = ["shift", "false_pos", "false_neg", "split", "cat_shuffle", "include_ref"]


def build_ref(case):
    pa = import_library()
    from pyannote.core import Segment
    c = pa.Continuum()
    for s, e, l in case["ref_units"]:
        c.add(case["ref_name"], Segment(s, e), l)
    return c


def snap(c):
    return {a: [oracle.lib_unit_tuple(u) for u in c[a]] for a in c.annotators}


def validity(corpus, expected_names, allowed_cats, what):
    if sorted(corpus.annotators) != sorted(expected_names):
        raise Violation(f"{what}:annotators", f"{list(corpus.annotators)} vs requested {sorted(expected_names)}")
    for a in corpus.annotators:
        units = list(corpus[a])
        if not units:
            raise Violation(f"{what}:empty-annotator", f"{a!r}")
        for u in units:
            if not (u.segment.end - u.segment.start > 0):
                raise Violation(f"{what}:non-positive-duration", f"{a!r}: {u}")
            if u.annotation not in allowed_cats:
                raise Violation(f"{what}:foreign-category", f"{a!r}: {u.annotation!r} not in {sorted(allowed_cats)}")
    if not set(corpus.categories) <= set(allowed_cats):
        raise Violation(f"{what}:categories-outside-reference", f"{list(corpus.categories)} vs {sorted(allowed_cats)}")


def check_corpus(case):
    pa = import_library()
    ref = build_ref(case)
    ref_units = [oracle.lib_unit_tuple(u) for u in ref[case["ref_name"]]]
    m = case["magnitude"]
    extras = case["extras"]
    cst = lib_call("CorpusShufflingTool", pa.CorpusShufflingTool, m, ref, extras)
    ann = case["annotators"]
    names = [f"annotator_{i}" for i in range(ann)] if isinstance(ann, int) else list(ann)
    flags = {f: bool(case["flags"] >> i & 1) for i, f in enumerate(FLAGS)}
    if flags["include_ref"] and case["ref_name"] in names:
        flags["include_ref"] = False
    np.random.seed(case["seed"])
    if case.get("reuse") is not None:
        # history: the SAME tool object first produces another corpus at another magnitude, then its public
        # `magnitude` attribute is reassigned (as the repository's own benchmark test does)
        cst.magnitude = case["reuse"]
        lib_call("corpus_shuffle[earlier use]", cst.corpus_shuffle, 2, shift=True, false_pos=True, false_neg=True, split=True, cat_shuffle=True)
        cst.magnitude = m
    corpus = lib_call("corpus_shuffle", cst.corpus_shuffle, ann if isinstance(ann, int) else list(ann), **flags)
    allowed = {u[2] for u in ref_units} | set(extras or [])
    expected = names + ([case["ref_name"]] if flags["include_ref"] else [])
    validity(corpus, expected, allowed, "corpus")
    got = snap(corpus)
    if flags["include_ref"] and got[case["ref_name"]] != ref_units:
        raise Violation("corpus:reference-not-included-verbatim", f"{got[case['ref_name']]} vs {ref_units}")
    if m == 0:
        for a in names:
            if got[a] != ref_units:
                raise Violation("corpus:magnitude-0-not-a-copy", f"flags {flags}: {a!r} {got[a]} vs reference {ref_units}")
    nflags = sum(1 for f in FLAGS[:5] if flags[f])
    classes = [f"flags={case['flags']:02d}", "m=0" if m == 0 else ("m=1" if m == 1 else "0<m<1"), "names" if not isinstance(ann, int) else f"count={ann}"]
    if case.get("reuse") is not None:
        classes.append("tool-reused")
    return {"nontrivial": m > 0 and nflags >= 1 and len(ref_units) >= 2, "classes": classes}


def check_single(case):
    pa = import_library()
    ref = build_ref(case)
    ref_units = [oracle.lib_unit_tuple(u) for u in ref[case["ref_name"]]]
    m = case["magnitude"]
    cst = lib_call("CorpusShufflingTool", pa.CorpusShufflingTool, m, ref, case["extras"])
    ann = case["annotators"]
    names = [f"annotator_{i}" for i in range(ann)] if isinstance(ann, int) else list(ann)
    corpus = lib_call("corpus_from_reference", cst.corpus_from_reference, ann if isinstance(ann, int) else list(ann))
    allowed = {u[2] for u in ref_units} | set(case["extras"] or [])
    validity(corpus, names, allowed, "from-reference")
    before = snap(corpus)
    for a in names:
        if before[a] != ref_units:
            raise Violation("from-reference:not-a-copy", f"{a!r}: {before[a]} vs {ref_units}")
    which = case["which"]
    np.random.seed(case["seed"])
    pre = case.get("pre")
    if pre and pre != which and m > 0:
        # the perturbation under test is applied to a corpus that another perturbation has already changed
        # (its size may then differ from the reference's): confinement is relative to the corpus as it was
        fn0 = {"false_neg": cst.false_neg_shuffle, "false_pos": cst.false_pos_shuffle, "split": cst.splits_shuffle, "shift": cst.shift_shuffle}[pre]
        lib_call(pre + "[earlier perturbation]", fn0, corpus)
        before = snap(corpus)
    fn = {"shift": cst.shift_shuffle, "false_neg": cst.false_neg_shuffle, "false_pos": cst.false_pos_shuffle,
          "category": cst.category_shuffle, "split": cst.splits_shuffle}[which]
    if which == "category":
        lib_call(which, fn, corpus, prevalence=case.get("prevalence", False))
    else:
        lib_call(which, fn, corpus)
    validity(corpus, names, allowed, which)
    after = snap(corpus)
    classes = [which, "m=0" if m == 0 else ("m=1" if m == 1 else "0<m<1")] + ([f"after-{pre}"] if pre and pre != which and m > 0 else [])
    distinct_segments = len({(u[0], u[1]) for u in ref_units}) == len(ref_units) and not (pre and pre != which and m > 0)
    exact_counts = len({(u[0], u[1]) for u in ref_units}) == len(ref_units)
    for a in names:
        b, x = before[a], after[a]
        if m == 0 and b != x:
            raise Violation(f"{which}:magnitude-0-changes", f"{a!r}: {b} -> {x}")
        if which == "category":
            if {(u[0], u[1]) for u in b} != {(u[0], u[1]) for u in x}:
                raise Violation("category:segments-changed", f"{a!r}: {b} -> {x}")
            if distinct_segments and len(b) != len(x):
                raise Violation("category:count-changed", f"{a!r}: {len(b)} -> {len(x)}")
        elif which == "split":
            nsplit = int(m * 2.5 * len(ref_units))
            db, dx = sum(u[1] - u[0] for u in b), sum(u[1] - u[0] for u in x)
            sub_precision = min(u[1] - u[0] for u in x) < 1e-4    # repeated splitting reached pyannote's 1e-6 precision: a split may be impossible
            if len({(u[0], u[1], u[2]) for u in x}) == len(b) + nsplit or sub_precision:
                if abs(db - dx) > 1e-9 * max(1.0, db) and (exact_counts or sub_precision):
                    raise Violation("split:total-duration-changed", f"{a!r}: {db} -> {dx}")
            if sub_precision:
                classes.append("split-reached-segment-precision")
            elif len(x) != len(b) + nsplit:
                # a piece may coincide with an existing unit only when the reference has duplicated segments
                if exact_counts:
                    raise Violation("split:wrong-number-of-units", f"{a!r}: {len(b)} + {nsplit} announced splits -> {len(x)} units")
                classes.append("split-coincidence")
            if {u[2] for u in x} - {u[2] for u in b}:
                raise Violation("split:labels-changed", f"{a!r}")
        elif which == "false_neg":
            if not set(x) <= set(b):
                raise Violation("false-neg:adds-or-alters-units", f"{a!r}: {sorted(set(x) - set(b))}")
        elif which == "false_pos":
            if not set(b) <= set(x):
                raise Violation("false-pos:removes-units", f"{a!r}: {sorted(set(b) - set(x), key=oracle.unit_key)}")
        elif which == "shift":
            if len(x) != len(b):
                if distinct_segments:
                    raise Violation("shift:count-changed", f"{a!r}: {len(b)} -> {len(x)}")
                classes.append("shift-coincidence")
            elif sorted(u[2] for u in x) != sorted(u[2] for u in b):
                raise Violation("shift:labels-changed", f"{a!r}")
    return {"nontrivial": m > 0 and len(ref_units) >= 2, "classes": classes}


@st.composite
def base_cases(draw):
    k = draw(st.integers(1, 12))
    units = []
    t = draw(gen.dyadic(0, 10))
    for _ in range(k):
        d = draw(gen.dyadic(0.5, 12))
        lab = draw(st.sampled_from(["A", "B", "C", "dog", "cat"]))
        units.append([t, t + d, lab])
        if draw(st.integers(0, 5)) == 0:           # same segment, another label
            units.append([t, t + d, draw(st.sampled_from(["A", "B", "C"]))])
        t += draw(gen.dyadic(-2, 15))
        t = max(t, 0.0)
    if draw(st.integers(0, 7)) == 0:
        # a few units barely longer than pyannote's segment precision (1e-6): splitting them may be impossible
        for j in range(draw(st.integers(1, 3))):
            s0 = 1000.0 + 10 * j
            units.append([s0, s0 + draw(st.sampled_from([1.5e-6, 3e-6, 2e-5])), "A"])
    seen, out = set(), []
    for u in units:
        if tuple(u) not in seen:
            seen.add(tuple(u))
            out.append(u)
    ann = draw(st.one_of(st.integers(1, 4), st.lists(st.sampled_from(["p", "q", "r", "Zed", "annotator_7"]), min_size=1, max_size=4, unique=True)))
    return {"ref_name": draw(st.sampled_from(["Ref", "a_ref", "zz"])), "ref_units": out,
            "magnitude": draw(st.one_of(st.sampled_from([0.0, 1.0, 0.5]), st.floats(0, 1, allow_nan=False).map(lambda x: round(x, 3)))),
            "annotators": ann, "extras": draw(st.sampled_from([None, None, ["X_extra"], ["A", "Y"]])),
            "seed": draw(st.integers(0, 2 ** 31 - 1))}


@st.composite
def corpus_cases(draw):
    cs = draw(base_cases())
    cs["flags"] = draw(st.integers(0, 63))
    cs["reuse"] = draw(st.sampled_from([None, None, 0.0, 0.5, 1.0]))
    return cs


@st.composite
def single_cases(draw):
    cs = draw(base_cases())
    cs["which"] = draw(st.sampled_from(["shift", "false_neg", "false_pos", "category", "split"]))
    cs["prevalence"] = draw(st.booleans())
    cs["pre"] = draw(st.sampled_from([None, None, "false_neg", "false_pos", "split", "shift"]))
    return cs


def subchecks(tier):
    return [
        Sub(name="corpus", check=check_corpus, strategy=corpus_cases(),
            examples={"quick": 800, "thorough": 8000}, shards={"quick": 8, "thorough": 16}),
        Sub(name="single", check=check_single, strategy=single_cases(),
            examples={"quick": 800, "thorough": 8000}, shards={"quick": 8, "thorough": 16}),
    ]
