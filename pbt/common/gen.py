"""Shared Hypothesis strategies.  Every generated value is JSON-able (DESIGN.md section 3).

continuum  = {"annotators": [names...], "units": [[annotator, start, end, label|None], ...]}
dissim spec= {"kind": "pos"|"abs"|"precomputed"|"lev"|"ordinal"|"numerical"|"combined", ...}
"""
import math

from hypothesis import strategies as st

GRID = 4  # times are multiples of 1/GRID: exactly representable in float32

ANNOTATOR_POOLS = [
    ["a", "b", "c", "d", "e"],
    ["Zoe", "adam", "Bob", "carl", "Dan"],
    ["annotator_10", "annotator_2", "annotator_1", "Annotator 3", "ref"],
    ["z", "y", "x", "w", "v"],
]

LABELS_ABC = ["A", "B", "C", "D"]
LABELS_WORDS = ["Noun", "Verb", "Adj", "Adv", "Det", "Prep", "verb", "noun phrase"]
LABELS_REPETITIVE = ["ab", "aab", "abab", "NP", "NP-NP", "10", "100", "1010", "aa", "a"]      # one label is another with a block repeated / deleted
LABELS_NUM = ["1", "2", "3", "5", "10", "20", "9", "100", "0.5"]

DELTAS = [1.0, 1.0, 1.0, 0.5, 2.0, 1.5, 0.25, 3.0]
COEFS = [1.0, 1.0, 0.0, 0.5, 2.0, 3.0, 0.75]


# values for which float32(C(n,2) * delta) / C(n,2) is not float32(delta) for n = 3 or 4 (products and quotients round differently)
ROUNDING_DELTAS = [0.85, 1.45, 1.7, 1.95, 2.9, 0.35, 0.7, 1.15, 3.4]


def delta_values():
    """mostly the round values, sometimes any two-decimal value in [0.1, 4] (not float32-exact: 0.85, 1.45, 2.9, ...)"""
    return st.one_of(st.sampled_from(DELTAS), st.sampled_from(DELTAS), st.sampled_from(DELTAS),
                     st.sampled_from(ROUNDING_DELTAS), st.integers(10, 400).map(lambda k: k / 100.0))


def dyadic(lo, hi, grid=GRID):
    return st.integers(int(lo * grid), int(hi * grid)).map(lambda k: k / grid)


# ------------------------------------------------------------------ dissimilarity specifications

def _sym_matrix(draw, n):
    vals = draw(st.lists(st.integers(0, 8), min_size=n * (n - 1) // 2, max_size=n * (n - 1) // 2))
    m = [[0.0] * n for _ in range(n)]
    k = 0
    for i in range(n):
        for j in range(i):
            m[i][j] = m[j][i] = vals[k] / 8.0
            k += 1
    return m


@st.composite
def cat_specs(draw, kinds=("abs", "precomputed", "lev", "ordinal", "numerical"), delta=None, max_cats=6):
    kind = draw(st.sampled_from(list(kinds)))
    d = delta if delta is not None else draw(delta_values())
    if kind == "abs":
        return {"kind": "abs", "delta": d}
    if kind == "precomputed":
        cats = draw(st.lists(st.sampled_from(LABELS_WORDS + LABELS_ABC), min_size=1, max_size=max_cats, unique=True))
        cats = sorted(cats)
        return {"kind": "precomputed", "cats": cats, "matrix": _sym_matrix(draw, len(cats)), "delta": d}
    if kind == "lev":
        pool = LABELS_REPETITIVE if draw(st.integers(0, 2)) == 0 else LABELS_WORDS + LABELS_ABC
        labels = draw(st.lists(st.sampled_from(pool), min_size=1, max_size=max_cats, unique=True))
        return {"kind": "lev", "labels": labels, "delta": d}
    if kind == "ordinal":
        labels = draw(st.lists(st.sampled_from(LABELS_WORDS + LABELS_ABC), min_size=1, max_size=max_cats, unique=True))
        if draw(st.booleans()):
            p = None
        else:
            p = draw(st.lists(st.integers(0, 40).map(lambda k: k / 4), min_size=len(labels), max_size=len(labels)))
        return {"kind": "ordinal", "labels": labels, "p": p, "delta": d}
    if kind == "numerical":
        labels = draw(st.lists(st.sampled_from(LABELS_NUM), min_size=1, max_size=max_cats, unique=True))
        return {"kind": "numerical", "labels": labels, "delta": d}
    raise ValueError(kind)


EXTREME_DELTAS = [1e-8, 1e-6, 1e-3, 1e4]


def _rescale(spec, delta):
    spec = dict(spec)
    spec["delta"] = delta
    for key in ("pos", "cat"):
        if spec.get(key):
            spec[key] = _rescale(spec[key], delta)
    return spec


@st.composite
def dissim_specs(draw, kinds=("pos", "abs", "precomputed", "lev", "ordinal", "numerical", "combined"),
                 equal_delta_only=False, max_cats=6, extreme=False):
    if extreme and draw(st.integers(0, 11)) == 0:
        # delta_empty far from 1: every disorder and gamma relation is scale-free
        base = draw(dissim_specs(kinds=kinds, equal_delta_only=True, max_cats=max_cats))
        return _rescale(base, draw(st.sampled_from(EXTREME_DELTAS)))
    kind = draw(st.sampled_from(list(kinds)))
    if kind == "pos":
        return {"kind": "pos", "delta": draw(delta_values())}
    if kind != "combined":
        return draw(cat_specs(kinds=(kind,), max_cats=max_cats))
    d = draw(delta_values())
    alpha = draw(st.sampled_from(COEFS))
    beta = draw(st.sampled_from(COEFS))
    if alpha == 0 and beta == 0:
        beta = 1.0
    mode = draw(st.sampled_from(["default", "default", "cat", "cat", "both"]))
    pos = None
    cat = None
    if mode in ("cat", "both"):
        dc = d if (equal_delta_only or draw(st.booleans())) else draw(st.sampled_from(DELTAS))
        cat = draw(cat_specs(delta=dc, max_cats=max_cats))
    if mode == "both":
        dp = d if (equal_delta_only or draw(st.booleans())) else draw(st.sampled_from(DELTAS))
        pos = {"kind": "pos", "delta": dp}
    return {"kind": "combined", "alpha": alpha, "beta": beta, "delta": d, "pos": pos, "cat": cat}


def spec_categories(spec):
    """the category table of a spec, or None when it accepts any label"""
    k = spec["kind"]
    if k in ("pos", "abs"):
        return None
    if k == "precomputed":
        return sorted(spec["cats"])
    if k in ("lev", "ordinal", "numerical"):
        return sorted(spec["labels"])
    if k == "combined":
        return None if spec["cat"] is None else spec_categories(spec["cat"])
    raise ValueError(k)


def labels_for(spec, unlabelled_ok=False):
    cats = spec_categories(spec)
    return cats if cats is not None else LABELS_ABC + [""]


# ------------------------------------------------------------------ continua

SHAPES = ["random", "random", "clusters", "clusters", "identical", "nested", "sparse", "coincide"]


def _counts(draw, n, budget, max_per, allow_empty=True):
    """per-annotator unit counts with prod(k_i + 1) <= budget"""
    counts = []
    remaining = budget
    for i in range(n):
        left = n - i - 1
        # keep room for the others to have at least 0 units (factor 1)
        cap = min(max_per, max(0, remaining - 1))
        k = draw(st.integers(0 if allow_empty else 1, max(0 if allow_empty else 1, cap)))
        counts.append(k)
        remaining = max(1, remaining // (k + 1))
    if sum(counts) == 0:
        counts[draw(st.integers(0, n - 1))] = 1
    return counts


@st.composite
def continua(draw, labels=LABELS_ABC, min_ann=2, max_ann=5, budget=1200, max_per=8,
             unlabelled=False, span=60, shapes=SHAPES, names=None):
    """labels: list of allowed labels (None entries never generated unless unlabelled=True)."""
    n = draw(st.integers(min_ann, max_ann))
    if names is None:
        pool = draw(st.sampled_from(ANNOTATOR_POOLS))
        names = draw(st.permutations(pool))[:n]
    else:
        names = list(names)[:n]
    shape = draw(st.sampled_from(shapes))
    if unlabelled == "mixed":      # labelled and unlabelled units side by side
        lab = lambda: draw(st.sampled_from([None] + list(labels)))
    elif unlabelled:
        lab = lambda: None
    else:
        lab = lambda: draw(st.sampled_from(labels))
    units = []
    counts = _counts(draw, n, budget, max_per)
    if shape == "random":
        for a, k in zip(names, counts):
            for _ in range(k):
                s = draw(dyadic(0, span))
                d = draw(dyadic(0.25, 12))
                units.append([a, s, s + d, lab()])
    elif shape == "clusters":
        kmax = max(counts)
        centers = [draw(dyadic(0, span)) for _ in range(max(1, kmax))]
        base_d = draw(dyadic(1, 10))
        for a, k in zip(names, counts):
            for c in centers[:k]:
                js = draw(st.integers(-4, 4)) / GRID
                je = draw(st.integers(-4, 4)) / GRID
                s = c + js
                e = max(s + 0.25, c + base_d + je)
                units.append([a, s, e, lab()])
    elif shape == "identical":
        k = min([c for c in counts if c > 0] or [1])
        while k > 1 and (k + 1) ** n > budget:
            k -= 1
        proto = []
        for _ in range(k):
            s = draw(dyadic(0, span))
            d = draw(dyadic(0.25, 12))
            proto.append((s, s + d, lab()))
        for a in names:
            for (s, e, l) in proto:
                units.append([a, s, e, l])
    elif shape == "nested":
        for a, k in zip(names, counts):
            for i in range(k):
                if i % 2 == 0:
                    s = draw(dyadic(0, 8))
                    d = draw(dyadic(20, span))
                else:
                    s = draw(dyadic(4, span))
                    d = draw(dyadic(0.25, 3))
                units.append([a, s, s + d, lab()])
    elif shape == "sparse":
        for a, k in zip(names, counts):
            t = draw(dyadic(-60, 0))
            for _ in range(k):
                t += draw(dyadic(20, 200))
                d = draw(dyadic(0.25, 4))
                units.append([a, t, t + d, lab()])
                t += d
    elif shape == "coincide":
        segs = [(draw(dyadic(0, 20)),) for _ in range(3)]
        segs = [(s[0], s[0] + draw(dyadic(0.5, 6))) for s in segs]
        for a, k in zip(names, counts):
            for _ in range(k):
                s, e = draw(st.sampled_from(segs))
                units.append([a, s, e, lab()])
    # de-duplicate (annotator, start, end, label): the container is a set
    seen = set()
    out = []
    for u in units:
        key = (u[0], u[1], u[2], u[3])
        if key not in seen:
            seen.add(key)
            out.append(u)
    if not out:
        out.append([names[0], 0.0, 1.0, lab()])
    return {"annotators": list(names), "units": out, "shape": shape}


def continuum_product(cont):
    per = {}
    for a in cont["annotators"]:
        per[a] = 0
    for u in cont["units"]:
        per[u[0]] += 1
    return math.prod(k + 1 for k in per.values())


@st.composite
def continuum_and_spec(draw, kinds=("pos", "abs", "precomputed", "lev", "ordinal", "numerical", "combined"),
                       equal_delta_only=False, unlabelled_ratio=0.0, extreme=False, **kw):
    spec = draw(dissim_specs(kinds=kinds, equal_delta_only=equal_delta_only, extreme=extreme))
    cats = spec_categories(spec)
    unl = False
    if cats is None and unlabelled_ratio > 0:
        r = draw(st.integers(0, 99))
        unl = True if r < unlabelled_ratio * 100 else ("mixed" if r < 2 * unlabelled_ratio * 100 else False)
    # without a category table any string is a label, the empty string included
    free = LABELS_ABC + [""] if draw(st.integers(0, 5)) == 0 else LABELS_ABC
    cont = draw(continua(labels=cats if cats is not None else free, unlabelled=unl, **kw))
    return {"continuum": cont, "dissim": spec}


@st.composite
def sequence_continua(draw, labels=LABELS_ABC, sizes=((3, 30, 36), (4, 15, 20))):
    """long, mostly sequential annotations (limited overlap): the shape for which fast-gamma's window is finite"""
    p, lo, hi = draw(st.sampled_from(list(sizes)))
    names = ["a", "b", "c", "d", "e"][:p]
    units = []
    for a in names:
        k = draw(st.integers(lo, hi))
        t = draw(dyadic(0, 3))
        for _ in range(k):
            d = draw(dyadic(1, 4))
            units.append([a, t, t + d, draw(st.sampled_from(labels))])
            t += d + draw(dyadic(0.5, 3))
    return {"annotators": names, "units": units, "shape": "sequence"}
