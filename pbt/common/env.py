"""Process environment for every check.

* /repo's *current working tree* is what gets imported (the package is installed in /venv in
  editable mode; we additionally put /repo first on sys.path and verify where the module came from).
* nothing is written into /repo (no byte-code).
* numba compiles the library's kernels at import time, there is no on-disk cache, so an edited
  source file is always what runs.
"""
import logging
import os
import sys
import warnings

REPO = os.environ.get("PYGAMMA_REPO", "/repo")
VERIF = os.path.dirname(os.path.dirname(os.path.dirname(os.path.abspath(__file__))))

os.environ.setdefault("PYTHONDONTWRITEBYTECODE", "1")
sys.dont_write_bytecode = True
# the guard recorded in MANIFEST.hooks (no source hook exists; see DESIGN.md 2.1)
os.environ.setdefault("PYGAMMA_AGREEMENT_VERIF", "1")

_pa = None


class HarnessError(Exception):
    """Something is wrong with the machinery itself (never reported as a VIOLATION)."""


def import_library():
    """Import pygamma_agreement from REPO (costs ~14 s: numba eager compilation)."""
    global _pa
    if _pa is not None:
        return _pa
    if REPO not in sys.path:
        sys.path.insert(0, REPO)
    warnings.filterwarnings("ignore")
    logging.disable(logging.CRITICAL)
    import pygamma_agreement as pa  # noqa
    where = os.path.realpath(pa.__file__)
    if not where.startswith(os.path.realpath(REPO) + os.sep):
        raise HarnessError(f"pygamma_agreement imported from {where}, not from {REPO}")
    _pa = pa
    return pa
