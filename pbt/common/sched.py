"""A schedule-owning replacement for concurrent.futures.ThreadPoolExecutor (test-side substitution of
pygamma_agreement.continuum.ThreadPoolExecutor, DESIGN.md C06).

submit() returns a real concurrent.futures.Future but does not start the job.  A batch of submitted jobs
is released when the submitting thread first blocks on one of its results (overridden Future.result) or,
for code that waits differently (as_completed / wait), after a short quiescence.  Released jobs are
STARTED in the order given by the generated schedule, on real threads, at most `workers` at a time, each
after its generated delay.  The fallback only changes which schedules are explored, never a verdict."""
import concurrent.futures
import contextlib
import queue
import threading
import time


class Schedule:
    """keys: list of ints deciding the start order inside each released batch; delays: list of ms"""

    def __init__(self, workers, keys, delays):
        self.workers = max(1, int(workers))
        self.keys = list(keys) or [0]
        self.delays = list(delays) or [0]
        self.batches = []      # record of (submission index -> start rank) for evidence
        self._cursor = 0

    def order(self, n):
        ks = [(self.keys[(self._cursor + i) % len(self.keys)], i) for i in range(n)]
        ds = [self.delays[(self._cursor + i) % len(self.delays)] / 1000.0 for i in range(n)]
        self._cursor += n
        perm = [i for _, i in sorted(ks)]
        self.batches.append(perm)
        return perm, ds

    @property
    def reordered(self):
        return any(p != sorted(p) for p in self.batches)


class _Future(concurrent.futures.Future):
    def __init__(self, ex):
        super().__init__()
        self._ex = ex

    def result(self, timeout=None):
        self._ex._release()
        return super().result(timeout)

    def exception(self, timeout=None):
        self._ex._release()
        return super().exception(timeout)


def make_executor_class(schedule: Schedule):
    class SchedExecutor:
        def __init__(self, max_workers=None, *a, **kw):
            self._pending = []
            self._lock = threading.Lock()
            self._threads = []
            self._timer = None

        def __enter__(self):
            return self

        def __exit__(self, *exc):
            self.shutdown(wait=True)
            return False

        def submit(self, fn, *args, **kwargs):
            f = _Future(self)
            with self._lock:
                self._pending.append((f, fn, args, kwargs))
                if self._timer is not None:
                    self._timer.cancel()
                self._timer = threading.Timer(0.2, self._release)
                self._timer.daemon = True
                self._timer.start()
            return f

        def _release(self):
            with self._lock:
                batch, self._pending = self._pending, []
                if self._timer is not None:
                    self._timer.cancel()
                    self._timer = None
            if not batch:
                return
            perm, delays = schedule.order(len(batch))
            q = queue.Queue()
            for rank, i in enumerate(perm):
                q.put((batch[i], delays[rank]))

            def worker():
                while True:
                    try:
                        (f, fn, args, kwargs), delay = q.get_nowait()
                    except queue.Empty:
                        return
                    if delay:
                        time.sleep(delay)
                    if not f.set_running_or_notify_cancel():
                        continue
                    try:
                        f.set_result(fn(*args, **kwargs))
                    except BaseException as e:  # noqa
                        f.set_exception(e)
            for _ in range(min(schedule.workers, len(batch))):
                t = threading.Thread(target=worker, daemon=True)
                t.start()
                self._threads.append(t)

        def shutdown(self, wait=True, **kw):
            self._release()
            if wait:
                for t in list(self._threads):
                    t.join()

        def map(self, fn, *iterables, timeout=None, chunksize=1):
            fs = [self.submit(fn, *args) for args in zip(*iterables)]
            return (f.result() for f in fs)
    return SchedExecutor


@contextlib.contextmanager
def owned_schedule(schedule: Schedule):
    import pygamma_agreement.continuum as mod
    orig = mod.ThreadPoolExecutor
    mod.ThreadPoolExecutor = make_executor_class(schedule)
    try:
        yield schedule
    finally:
        mod.ThreadPoolExecutor = orig


@contextlib.contextmanager
def cpu_count(n):
    import os
    orig = os.cpu_count
    os.cpu_count = lambda: n
    try:
        yield
    finally:
        os.cpu_count = orig
