"""Test-side control of the MIP back-end (no source hook).

'cbc'      : cylp importable, CBC used
'glpk'     : `import cylp` made to fail (sys.modules['cylp'] = None) -> the library's GLPK branch
'cbc_fail' : cylp importable but solving with CBC raises cvxpy.SolverError -> the library's GLPK branch

A spy on cvxpy.Problem.solve records which solver really ran.
"""
import contextlib
import sys
import threading

_lock = threading.RLock()


@contextlib.contextmanager
def backend(mode):
    import cvxpy as cp
    used = []
    orig = cp.Problem.solve
    saved = sys.modules.get("cylp", "absent")

    def spy(self, *a, **kw):
        solver = kw.get("solver", a[0] if a else None)
        if mode == "cbc_fail" and solver == cp.CBC:
            used.append("CBC!fail")
            raise cp.SolverError("injected CBC failure")
        used.append(str(solver))
        return orig(self, *a, **kw)

    with _lock:
        try:
            if mode == "glpk":
                sys.modules["cylp"] = None
            cp.Problem.solve = spy
            yield used
        finally:
            cp.Problem.solve = orig
            if mode == "glpk":
                if saved == "absent":
                    sys.modules.pop("cylp", None)
                else:
                    sys.modules["cylp"] = saved


def expected_solvers(mode):
    return {"cbc": ["CBC"], "glpk": ["GLPK_MI"], "cbc_fail": ["CBC!fail", "GLPK_MI"]}[mode]
