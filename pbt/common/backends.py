"""Test-side control of the MIP back-end (no source hook).

'cbc'      : cylp importable, CBC used
'glpk'     : `import cylp` made to fail (sys.modules['cylp'] = None) -> the library's GLPK branch
'cbc_fail' : cylp importable but solving with CBC raises cvxpy.SolverError -> the library's GLPK branch
'cylp_broken' : cylp present but unloadable: `import cylp` raises a plain ImportError (meta-path finder) -> GLPK branch

A spy on cvxpy.Problem.solve records which solver really ran.
"""
import contextlib
import sys
import threading

_lock = threading.RLock()


@contextlib.contextmanager
def backend(mode):
    import cvxpy as cp
    used = []
    orig = cp.Problem.solve
    saved = sys.modules.get("cylp", "absent")

    def spy(self, *a, **kw):
        solver = kw.get("solver", a[0] if a else None)
        if mode == "cbc_fail" and solver == cp.CBC:
            used.append("CBC!fail")
            raise cp.SolverError("injected CBC failure")
        used.append(str(solver))
        return orig(self, *a, **kw)

    finder = None
    stash = {}
    with _lock:
        try:
            if mode == "glpk":
                sys.modules["cylp"] = None
            elif mode == "cylp_broken":
                # cylp is installed but cannot be loaded (e.g. a missing libCbc shared library): `import cylp` raises a
                # plain ImportError, not ModuleNotFoundError
                import importlib.abc

                class _Broken(importlib.abc.MetaPathFinder):
                    def find_spec(self, name, path=None, target=None):
                        if name == "cylp" or name.startswith("cylp."):
                            raise ImportError("libCbc.so.3: cannot open shared object file: No such file or directory (injected)")
                        return None
                for k in [k for k in sys.modules if k == "cylp" or k.startswith("cylp.")]:
                    stash[k] = sys.modules.pop(k)
                finder = _Broken()
                sys.meta_path.insert(0, finder)
            cp.Problem.solve = spy
            yield used
        finally:
            cp.Problem.solve = orig
            if finder is not None:
                sys.meta_path.remove(finder)
                sys.modules.update(stash)
            if mode == "glpk":
                if saved == "absent":
                    sys.modules.pop("cylp", None)
                else:
                    sys.modules["cylp"] = saved


def expected_solvers(mode):
    return {"cbc": ["CBC"], "glpk": ["GLPK_MI"], "cylp_broken": ["GLPK_MI"], "cbc_fail": ["CBC!fail", "GLPK_MI"]}[mode]
