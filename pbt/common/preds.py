"""Validity predicates over library results (two-directional, independent of Alignment.check)."""
import collections

from . import oracle
from .core import Violation


def alignment_structure(alignment, per, label="alignment"):
    """per: {annotator: [unit tuples]} (the model of the continuum).  Returns the list of slot lists
    (annotators in alphabetical order).  Raises Violation when a unitary alignment is malformed."""
    names = sorted(per)
    out = []
    for k, ua in enumerate(alignment.unitary_alignments):
        seen = {}
        for annotator, unit in ua.n_tuple:
            if annotator in seen:
                raise Violation(f"{label}:two-slots-for-annotator", f"unitary #{k}: {annotator!r} twice")
            seen[annotator] = None if unit is None else oracle.lib_unit_tuple(unit)
        if sorted(seen) != names:
            raise Violation(f"{label}:slots-not-one-per-annotator", f"unitary #{k}: {sorted(seen)} vs {names}")
        slots = [seen[a] for a in names]
        if all(s is None for s in slots):
            raise Violation(f"{label}:all-empty-unitary-alignment", f"unitary #{k}")
        for a, s in zip(names, slots):
            if s is not None and s not in set(per[a]):
                raise Violation(f"{label}:foreign-unit", f"unitary #{k}: {a!r} -> {s}")
        out.append(slots)
    return out


def check_partition(alignment, per, label="alignment"):
    slots_list = alignment_structure(alignment, per, label)
    cnt = oracle.occurrence_counts(slots_list, per.keys())
    for a, units in per.items():
        for u in units:
            c = cnt.get((a, u), 0)
            if c == 0:
                raise Violation(f"{label}:unit-missing", f"{a!r} -> {u} not in any unitary alignment")
            if c > 1:
                raise Violation(f"{label}:unit-duplicated", f"{a!r} -> {u} occurs {c} times")
    return slots_list


def check_cover(alignment, per, label="soft"):
    slots_list = alignment_structure(alignment, per, label)
    cnt = oracle.occurrence_counts(slots_list, per.keys())
    for a, units in per.items():
        for u in units:
            if cnt.get((a, u), 0) == 0:
                raise Violation(f"{label}:unit-missing", f"{a!r} -> {u} not in any unitary alignment")
    seen = collections.Counter(tuple(s) for s in slots_list)
    for s, c in seen.items():
        if c > 1:
            raise Violation(f"{label}:repeated-unitary-alignment", f"{s} x{c}")
    return slots_list


def check_reported_disorders(alignment, slots_list, spec, per, label="alignment", check_total=True):
    """carried per-unitary disorders and total disorder equal the reference formulas"""
    total = 0.0
    for k, (ua, slots) in enumerate(zip(alignment.unitary_alignments, slots_list)):
        ref = oracle.ref_unitary_disorder(spec, slots)
        total += ref
        got = float(ua.disorder)
        if not oracle.close(got, ref):
            raise Violation(f"{label}:unitary-disorder-mismatch", f"unitary #{k} {slots}: carried {got} reference {ref}")
    ref_total = oracle.alignment_disorder_from_sum(total, per)
    if check_total:
        got = float(alignment.disorder)
        if not oracle.close(got, ref_total):
            raise Violation(f"{label}:disorder-mismatch", f"carried {got} reference {ref_total}")
    return ref_total
