"""Reference formulas and optimum oracles, written from the property statements (DESIGN.md section 4).
All arithmetic is float64.  Units are (start, end, label|None) tuples; a missing unit is None."""
import itertools
import math

import numpy as np

from .core import canon
from .env import HarnessError

REL_TOL = 2e-5


FLOOR = 1.0     # absolute scale below which differences are compared absolutely; checks set it to delta_empty


class scale_floor:
    """`with oracle.scale_floor(delta_empty):` - disorders live on the scale of delta_empty, so the absolute part of every
    tolerance follows it (otherwise comparisons would be vacuous for a tiny delta_empty)"""

    def __init__(self, value):
        self.value = float(value) if value and value > 0 else 1.0

    def __enter__(self):
        global FLOOR
        self.prev, FLOOR = FLOOR, self.value

    def __exit__(self, *exc):
        global FLOOR
        FLOOR = self.prev
        return False


def close(a, b, rel=REL_TOL, scale=None):
    a = float(a)
    b = float(b)
    if a == b:          # also +-inf (e.g. gamma with a zero expected disorder)
        return True
    if math.isnan(a) or math.isnan(b) or math.isinf(a) or math.isinf(b):
        return False
    s = max(FLOOR, abs(b)) if scale is None else scale
    return abs(a - b) <= rel * s


# ------------------------------------------------------------------ library object builders

_DISSIM_CACHE = {}


def build_dissim(spec, cache=True):
    """library object for a dissimilarity spec (components are always built fresh)"""
    from .env import import_library
    pa = import_library()
    key = canon(spec)
    if cache and key in _DISSIM_CACHE:
        return _DISSIM_CACHE[key]
    from sortedcontainers import SortedSet
    k = spec["kind"]
    d = spec["delta"]
    if k == "pos":
        obj = pa.PositionalSporadicDissimilarity(delta_empty=d)
    elif k == "abs":
        obj = pa.AbsoluteCategoricalDissimilarity(delta_empty=d)
    elif k == "precomputed":
        obj = pa.PrecomputedCategoricalDissimilarity(SortedSet(spec["cats"]),
                                                     np.array(spec["matrix"], dtype=np.float32), delta_empty=d)
    elif k == "lev":
        obj = pa.LevenshteinCategoricalDissimilarity(list(spec["labels"]), delta_empty=d)
    elif k == "ordinal":
        p = None if spec["p"] is None else list(spec["p"])
        obj = pa.OrdinalCategoricalDissimilarity(list(spec["labels"]), p=p, delta_empty=d)
    elif k == "numerical":
        obj = pa.NumericalCategoricalDissimilarity(list(spec["labels"]), delta_empty=d)
    elif k == "combined":
        pos = None if spec["pos"] is None else build_dissim(spec["pos"], cache=False)
        cat = None if spec["cat"] is None else build_dissim(spec["cat"], cache=False)
        obj = pa.CombinedCategoricalDissimilarity(alpha=spec["alpha"], beta=spec["beta"], delta_empty=d,
                                                  pos_dissim=pos, cat_dissim=cat)
    else:
        raise HarnessError(f"unknown spec kind {k}")
    if cache:
        if len(_DISSIM_CACHE) > 400:
            _DISSIM_CACHE.clear()
        _DISSIM_CACHE[key] = obj
    return obj


def build_continuum(cont):
    from .env import import_library
    pa = import_library()
    from pyannote.core import Segment
    c = pa.Continuum()
    for a in cont["annotators"]:
        c.add_annotator(a)
    for a, s, e, l in cont["units"]:
        c.add(a, Segment(s, e), l)
    return c


def unit_key(u):
    """the documented strict total order: start, end, then label with None first"""
    return (u[0], u[1], u[2] is not None, u[2] or "")


def per_annotator(cont):
    """{annotator: [units sorted in the documented order]} with annotators sorted alphabetically"""
    per = {a: set() for a in cont["annotators"]}
    for a, s, e, l in cont["units"]:
        per[a].add((float(s), float(e), l))
    return {a: sorted(per[a], key=unit_key) for a in sorted(per)}


def lib_unit_tuple(unit):
    return (float(unit.segment.start), float(unit.segment.end), unit.annotation)


# ------------------------------------------------------------------ reference dissimilarities

def levenshtein(a, b):
    prev = list(range(len(b) + 1))
    for i in range(1, len(a) + 1):
        cur = [i] + [0] * len(b)
        for j in range(1, len(b) + 1):
            cur[j] = min(prev[j] + 1, cur[j - 1] + 1, prev[j - 1] + (a[i - 1] != b[j - 1]))
        prev = cur
    return prev[-1]


_F32_INPUTS = False


class f32_inputs:
    """`with oracle.f32_inputs():` - positional references are evaluated on the float32-rounded (start, end, duration)
    triple the library documents it works on.  Needed for continua with arbitrary float times (sampled continua): with
    times ~100 and close units the rounding of the INPUTS alone is of the order of the 2e-5 band.  No effect on grid times."""

    def __enter__(self):
        global _F32_INPUTS
        self.prev, _F32_INPUTS = _F32_INPUTS, True

    def __exit__(self, *exc):
        global _F32_INPUTS
        _F32_INPUTS = self.prev
        return False


def ref_positional(u, v, delta=1.0):
    if _F32_INPUTS:
        f = lambda x: float(np.float32(x))
        num = abs(f(u[0]) - f(v[0])) + abs(f(u[1]) - f(v[1]))
        den = f(u[1] - u[0]) + f(v[1] - v[0])
        return (num / den) ** 2 * delta
    num = abs(u[0] - v[0]) + abs(u[1] - v[1])
    den = (u[1] - u[0]) + (v[1] - v[0])
    return (num / den) ** 2 * delta


def _cat_table(spec):
    """{(name, name): value in [0,1]} looked up by category *name*; returns (fn, accepted_alternatives)"""
    k = spec["kind"]
    if k == "abs":
        return lambda a, b: 0.0 if a == b else 1.0
    if k == "precomputed":
        cats = sorted(spec["cats"])
        idx = {c: i for i, c in enumerate(cats)}
        m = spec["matrix"]
        return lambda a, b: float(np.float32(m[idx[a]][idx[b]]))
    if k == "lev":
        plus = lev_normaliser_offset()
        return lambda a, b: (levenshtein(a, b) / (max(len(a), len(b)) + plus)) if a != b else 0.0
    if k in ("ordinal", "numerical"):
        pos = ordinal_positions(spec)
        scale = ordinal_scale(spec)
        return lambda a, b: abs(pos[a] - pos[b]) * scale
    raise HarnessError(f"not categorical: {k}")


_REF_CACHE = {}
_LEV_OFFSET = None
_ORD_SCALE = {}


def ordinal_positions(spec):
    labels = list(spec["labels"])
    if spec["kind"] == "numerical":
        return {l: float(np.float32(float(l))) for l in labels}
    if spec.get("p") is None:
        return {l: float(i) for i, l in enumerate(labels)}
    return {l: float(p) for l, p in zip(labels, spec["p"])}


def ordinal_scale(spec):
    """The property only demands that ordinal/numerical values are PROPORTIONAL to the distance of the
    positions (the docstrings give two different normalisations).  The one positive constant per
    dissimilarity is therefore calibrated from the library: value of the two extreme labels / their distance,
    measured on a stand-alone object with delta_empty = 1 (DESIGN.md C04)."""
    key = canon({k: spec[k] for k in ("kind", "labels", "p") if k in spec})
    if key in _ORD_SCALE:
        return _ORD_SCALE[key]
    pos = ordinal_positions(spec)
    lo = min(pos, key=lambda l: (pos[l], l))
    hi = max(pos, key=lambda l: (pos[l], l))
    dist = abs(pos[hi] - pos[lo])
    scale = 1.0
    if dist > 0:
        from .env import import_library
        pa = import_library()
        from pyannote.core import Segment
        base = dict(spec)
        base["delta"] = 1.0
        obj = build_dissim(base, cache=False)
        v = float(obj.d(pa.Unit(Segment(0, 1), lo), pa.Unit(Segment(0, 1), hi)))
        if v > 0 and math.isfinite(v):
            scale = v / dist
    if len(_ORD_SCALE) > 2000:
        _ORD_SCALE.clear()
    _ORD_SCALE[key] = scale
    return scale


def lev_normaliser_offset():
    """'proportional Levenshtein distance' is all the documentation says: distance / (max(len) + 1) (what
    the code does) and distance / max(len) are both accepted.  One probe of the library's public static
    function decides which of the two the reference uses (1 bit of calibration, see DESIGN.md C04)."""
    global _LEV_OFFSET
    if _LEV_OFFSET is None:
        from .env import import_library
        pa = import_library()
        try:
            v = float(pa.LevenshteinCategoricalDissimilarity.cat_dissim_func("ab", "abcd"))
        except Exception:
            v = 0.4
        _LEV_OFFSET = 0 if abs(v - 0.5) < 1e-6 else 1
    return _LEV_OFFSET


def ref_d(spec):
    """reference unit-to-unit dissimilarity function (u, v) -> float for a spec"""
    key = canon(spec)
    if key in _REF_CACHE:
        return _REF_CACHE[key]
    k = spec["kind"]
    delta = float(spec["delta"])
    if k == "pos":
        fn = lambda u, v: ref_positional(u, v, delta)
    elif k == "combined":
        alpha, beta = float(spec["alpha"]), float(spec["beta"])
        table = _cat_table(spec["cat"]) if spec["cat"] is not None else _cat_table({"kind": "abs"})
        # the ONE delta_empty given to the combined dissimilarity applies to both terms
        fn = lambda u, v: alpha * ref_positional(u, v, delta) + beta * table(u[2], v[2]) * delta
    else:
        table = _cat_table(spec)
        fn = lambda u, v: table(u[2], v[2]) * delta
    if len(_REF_CACHE) > 1000:
        _REF_CACHE.clear()
    _REF_CACHE[key] = fn
    return fn


def ref_unitary_disorder(spec, slots):
    """slots: list (one per annotator) of unit tuples or None"""
    d = ref_d(spec)
    delta = float(spec["delta"])
    n = len(slots)
    tot = 0.0
    for i in range(n):
        for j in range(i):
            if slots[i] is None or slots[j] is None:
                tot += delta
            else:
                tot += d(slots[i], slots[j])
    return tot / (n * (n - 1) / 2)


# ------------------------------------------------------------------ candidate enumeration (unpruned)

def pair_matrices(spec, per):
    """per: list of unit lists.  returns {(i, j): (k_i+1) x (k_j+1) float64 matrix}, last row/col = delta"""
    d = ref_d(spec)
    delta = float(spec["delta"])
    mats = {}
    n = len(per)
    for i in range(n):
        for j in range(i):
            m = np.full((len(per[i]) + 1, len(per[j]) + 1), delta, dtype=np.float64)
            for x, u in enumerate(per[i]):
                for y, v in enumerate(per[j]):
                    m[x, y] = d(u, v)
            mats[(i, j)] = m
    return mats


def all_tuple_costs(spec, per):
    """unitary disorder of every index tuple: ndarray of shape (k_0+1, ..., k_{n-1}+1);
    index k_i means 'empty'.  The all-empty entry is set to +inf."""
    n = len(per)
    mats = pair_matrices(spec, per)
    shape = tuple(len(p) + 1 for p in per)
    tot = np.zeros(shape, dtype=np.float64)
    for (i, j), m in mats.items():
        # i > j: m[x_i, x_j]; axes are ordered by annotator, so axis j comes first
        tgt = [1] * n
        tgt[j] = shape[j]
        tgt[i] = shape[i]
        tot = tot + m.T.reshape(tgt)
    tot = tot / (n * (n - 1) / 2)
    tot[tuple(s - 1 for s in shape)] = np.inf
    return tot


def _tuples_and_masks(per, costs):
    """flat list of (cost, mask) for all tuples except all-empty; units numbered annotator-major"""
    shape = costs.shape
    offsets = np.cumsum([0] + [len(p) for p in per])
    out_cost = []
    out_mask = []
    out_idx = []
    for idx in itertools.product(*[range(s) for s in shape]):
        c = costs[idx]
        if not np.isfinite(c):
            continue
        mask = 0
        for a, i in enumerate(idx):
            if i < shape[a] - 1:
                mask |= 1 << int(offsets[a] + i)
        out_cost.append(float(c))
        out_mask.append(mask)
        out_idx.append(idx)
    return out_cost, out_mask, out_idx


def optimum_dp(per, costs, cover=False):
    """exact minimum total unitary disorder over partitions (or covers) by bitmask DP (<= ~12 units)"""
    nunits = sum(len(p) for p in per)
    tc, tm, _ = _tuples_and_masks(per, costs)
    by_unit = [[] for _ in range(nunits)]
    for c, m in zip(tc, tm):
        b = 0
        mm = m
        while mm:
            if mm & 1:
                by_unit[b].append((c, m))
            mm >>= 1
            b += 1
    full = (1 << nunits) - 1
    memo = {full: 0.0}

    def f(mask):
        if mask in memo:
            return memo[mask]
        low = 0
        while mask >> low & 1:
            low += 1
        best = math.inf
        for c, m in by_unit[low]:
            if not cover and (m & mask):
                continue
            v = c + f(mask | m)
            if v < best:
                best = v
        memo[mask] = best
        return best

    import sys
    sys.setrecursionlimit(10000)
    return f(0)


def optimum_assignment(spec, per):
    """2 annotators: exact optimum by the assignment problem"""
    from scipy.optimize import linear_sum_assignment
    assert len(per) == 2
    m = pair_matrices(spec, per)[(1, 0)]  # rows annotator 1, cols annotator 0
    a, b = len(per[1]), len(per[0])
    delta = float(spec["delta"])
    big = np.zeros((a + b, a + b))
    big[:a, :b] = m[:a, :b]
    big[:a, b:] = delta     # unit of annotator 1 unmatched
    big[a:, :b] = delta     # unit of annotator 0 unmatched
    big[a:, b:] = 0.0
    r, c = linear_sum_assignment(big)
    return float(big[r, c].sum())  # with n = 2, C(n,2) = 1: unitary disorder = pair cost


_HIGHS_PATCHED = False


def _single_thread_highs():
    """HiGHS starts one worker thread per core; with 16 worker processes that is pure contention.
    scipy.optimize.milp does not expose the option, so the (private) wrapper gets it injected."""
    global _HIGHS_PATCHED
    if _HIGHS_PATCHED:
        return
    _HIGHS_PATCHED = True
    try:
        import scipy.optimize._milp as _m
        orig = _m._highs_wrapper

        def wrapper(c, indptr, indices, data, b_l, b_u, lb, ub, integrality, options):
            options = dict(options)
            options.setdefault("threads", 1)
            return orig(c, indptr, indices, data, b_l, b_u, lb, ub, integrality, options)
        _m._highs_wrapper = wrapper
    except Exception:
        pass


def optimum_milp(per, costs, cover=False):
    """returns (upper, lower): value of HiGHS's feasible solution and its dual bound"""
    from scipy.optimize import milp, LinearConstraint, Bounds
    _single_thread_highs()
    from scipy.sparse import csc_matrix
    tc, tm, _ = _tuples_and_masks(per, costs)
    nunits = sum(len(p) for p in per)
    rows, cols = [], []
    for j, m in enumerate(tm):
        b = 0
        while m:
            if m & 1:
                rows.append(b)
                cols.append(j)
            m >>= 1
            b += 1
    A = csc_matrix((np.ones(len(rows)), (rows, cols)), shape=(nunits, len(tc)))
    cons = LinearConstraint(A, lb=np.ones(nunits), ub=(np.full(nunits, np.inf) if cover else np.ones(nunits)))
    # the solver's tolerances are absolute: costs are expressed in units of delta_empty (= the cost of any tuple holding a
    # single unit), so that its 1e-6 absolute gap stays far below the 2e-5 relative band of the checks
    singles = [c for c, m in zip(tc, tm) if m & (m - 1) == 0 and m]
    tc_scale = singles[0] if singles and singles[0] > 0 else 1.0
    tc = [x / tc_scale for x in tc]
    res = milp(c=np.array(tc), constraints=[cons], integrality=np.ones(len(tc)), bounds=Bounds(0, 1),
               options={"mip_rel_gap": 0.0, "presolve": True, "time_limit": MILP_TIME_LIMIT})
    # status 0: optimal; 1: time limit (highly symmetric instances) - both bounds stay valid, the check is
    # two-sided against [lower, upper] and merely becomes weaker; anything else is a harness error
    if res.status not in (0, 1):
        raise HarnessError(f"oracle MILP did not solve: status={res.status} {res.message}")
    upper = math.inf
    if res.x is not None:
        x = np.round(res.x)
        cov = A @ x
        if cover:
            ok = np.all(cov >= 1 - 1e-9)
        else:
            ok = np.all(np.abs(cov - 1) < 1e-9)
        if not ok:
            raise HarnessError("oracle MILP solution infeasible")
        upper = float(np.dot(np.array(tc), x))
    lower = getattr(res, "mip_dual_bound", None)
    if lower is None or not np.isfinite(lower):
        lower = upper if res.status == 0 else 0.0
    lower = min(float(lower), upper)
    return upper * tc_scale, lower * tc_scale


MILP_TIME_LIMIT = 6.0


def optimum(spec, per_dict, cover=False, force=None):
    """(upper, lower, method) for the sum of unitary disorders of the optimal alignment, and mean units"""
    per = [per_dict[a] for a in sorted(per_dict)]
    n = len(per)
    nunits = sum(len(p) for p in per)
    method = force
    if method is None:
        if n == 2 and not cover:
            method = "assignment"
        elif nunits <= 9:
            method = "dp"
        else:
            method = "milp"
    if method == "assignment":
        v = optimum_assignment(spec, per)
        return v, v, method
    costs = all_tuple_costs(spec, per)
    if method == "dp":
        v = optimum_dp(per, costs, cover)
        return v, v, method
    up, lo = optimum_milp(per, costs, cover)
    return up, lo, method


def alignment_disorder_from_sum(total, per_dict):
    nunits = sum(len(p) for p in per_dict.values())
    return total / (nunits / len(per_dict))


# ------------------------------------------------------------------ structural predicates

def alignment_slots(alignment, annotators):
    """[(slots per sorted annotator)] from a library alignment; raises Violation-free ValueError text
    when the structure is malformed (caller converts)."""
    out = []
    for ua in alignment.unitary_alignments:
        seen = {}
        for annotator, unit in ua.n_tuple:
            if annotator in seen:
                raise ValueError(f"annotator {annotator!r} has two slots in one unitary alignment")
            seen[annotator] = None if unit is None else lib_unit_tuple(unit)
        if sorted(seen) != sorted(annotators):
            raise ValueError(f"slots {sorted(seen)} != annotators {sorted(annotators)}")
        out.append([seen[a] for a in sorted(annotators)])
    return out


def occurrence_counts(slots_list, annotators):
    import collections
    cnt = collections.Counter()
    names = sorted(annotators)
    for slots in slots_list:
        for a, u in zip(names, slots):
            if u is not None:
                cnt[(a, u)] += 1
    return cnt


# ------------------------------------------------------------------ exact (rational) costs for ties at the pruning cut

def _f32_exact(q):
    """q (Fraction) is exactly representable in float32"""
    from fractions import Fraction
    try:
        f = float(q)
    except OverflowError:
        return False
    return Fraction(f) == q and Fraction(float(np.float32(f))) == q


def exact_pair_cost(spec, u, v):
    """Fraction equal to the pair dissimilarity when every intermediate of the documented formula is exactly
    representable in float32 (then float32 and float64 evaluation both give exactly this value); else None.
    Supported: positional, absolute, precomputed, combined of those."""
    from fractions import Fraction as F
    k = spec["kind"]
    delta = F(spec["delta"])
    if not _f32_exact(delta):
        return None

    def pos():
        s1, e1, s2, e2 = F(u[0]), F(u[1]), F(v[0]), F(v[1])
        steps = [s1, e1, s2, e2, e1 - s1, e2 - s2, abs(s1 - s2), abs(e1 - e2), abs(s1 - s2) + abs(e1 - e2), (e1 - s1) + (e2 - s2)]
        x = steps[8] / steps[9]
        steps += [x, x * x, x * x * delta]
        return steps[-1] if all(_f32_exact(t) for t in steps) else None

    def cat(cspec):
        if cspec is None or cspec["kind"] == "abs":
            return F(0) if u[2] == v[2] else delta
        if cspec["kind"] == "precomputed":
            cats = sorted(cspec["cats"])
            m = F(cspec["matrix"][cats.index(u[2])][cats.index(v[2])])
            return m * delta if _f32_exact(m) and _f32_exact(m * delta) else None
        return None
    if k == "pos":
        return pos()
    if k in ("abs", "precomputed"):
        return cat(spec)
    if k == "combined":
        a, b = F(spec["alpha"]), F(spec["beta"])
        p_, c_ = pos(), cat(spec["cat"])
        if p_ is None or c_ is None:
            return None
        parts = [a, b, a * p_, b * c_, a * p_ + b * c_]
        return parts[-1] if all(_f32_exact(t) for t in parts) else None
    return None


def exact_tuple_sum(spec, slots):
    """exact sum of pair costs of a tuple (NOT divided by C(n,2)), or None when some pair is not exact"""
    from fractions import Fraction as F
    delta = F(spec["delta"])
    tot = F(0)
    for i in range(len(slots)):
        for j in range(i):
            if slots[i] is None or slots[j] is None:
                tot += delta
            else:
                c = exact_pair_cost(spec, slots[i], slots[j])
                if c is None:
                    return None
                tot += c
    return tot


# ------------------------------------------------------------------ in-place edit histories

def apply_edit(c, cont, edit, labels):
    """applies one edit IN PLACE to the library continuum `c` and to the JSON model `cont` (returns the new model).
    edit = ["replace", k, start, dur, label_i] | ["add", annotator_i, start, dur, label_i] | ["remove", k]"""
    from .env import import_library
    pa = import_library()
    from pyannote.core import Segment
    units = [list(u) for u in cont["units"]]
    names = cont["annotators"]
    kind = edit[0]
    unl = bool(units) and all(u[3] is None for u in units)

    def lab(i):
        return None if unl else labels[i % len(labels)]
    if kind in ("replace", "remove") and units:
        k = edit[1] % len(units)
        a, s, e, l = units[k]
        if kind == "remove" and len(units) == 1:
            return cont
        c.remove(a, pa.Unit(Segment(s, e), l))
        del units[k]
        if kind == "replace":
            ns, nd = edit[2], edit[3]
            new = [a, ns, ns + nd, lab(edit[4])]
            if new not in units:
                c.add(a, Segment(new[1], new[2]), new[3])
                units.append(new)
            else:
                c.add(a, Segment(s, e), l)
                units.append([a, s, e, l])
    elif kind == "add":
        a = names[edit[1] % len(names)]
        new = [a, edit[2], edit[2] + edit[3], lab(edit[4])]
        if new not in units:
            c.add(a, Segment(new[1], new[2]), new[3])
            units.append(new)
    out = dict(cont)
    out["units"] = units
    return out
