"""Runner shared by all property checks (see DESIGN.md section 2).

A property module exposes ID, RULE, ASSUMPTIONS and subchecks(tier) -> [Sub].  A Sub is one
executable predicate over generated cases:

  kind 'given'   : cases come from a Hypothesis strategy (JSON-able values), check(case) decides
  kind 'enum'    : cases come from an exhaustive enumeration, sharded by index
  kind 'machine' : cases are operation histories produced by a Hypothesis RuleBasedStateMachine;
                   the recorded operation log is the case, check(case) re-interprets a log

check(case) returns an info dict {'nontrivial': bool, 'classes': [labels]} and raises Violation
when the property is broken.  Any other exception is a harness error (exit 2, never VIOLATION).
"""
import argparse
import collections
import hashlib
import json
import multiprocessing
import os
import sys
import tempfile
import time
import traceback
from dataclasses import dataclass, field
from typing import Any, Callable, Dict, List, Optional

from . import env
from .env import HarnessError, VERIF

# VERIF_OUT_DIR redirects evidence and replay files (used only for sensitivity experiments against scratch
# copies of the repository, so that /verif/evidence always describes /repo itself)
_OUT = os.environ.get("VERIF_OUT_DIR") or VERIF
EVIDENCE_DIR = os.path.join(_OUT, "evidence")
REPLAY_DIR = os.path.join(_OUT, "replays")
KNOWN_FILE = os.path.join(VERIF, "known_findings.txt")

MAX_ROOT_CAUSES = 3


class Violation(Exception):
    def __init__(self, sig: str, msg: str = ""):
        super().__init__(f"{sig}: {msg}")
        self.sig = sig
        self.msg = msg


@dataclass
class Sub:
    name: str
    check: Callable[[Any], Dict]
    kind: str = "given"
    strategy: Any = None                      # kind given
    cases: Optional[Callable[[], Any]] = None  # kind enum: () -> iterable of cases
    machine: Any = None                       # kind machine: OpLogMachine subclass
    steps: int = 40                           # kind machine
    examples: Dict[str, int] = field(default_factory=lambda: {"quick": 100, "thorough": 1000})
    shards: Dict[str, int] = field(default_factory=lambda: {"quick": 8, "thorough": 16})
    budget_s: Dict[str, float] = field(default_factory=lambda: {"quick": 150.0, "thorough": 1500.0})
    exhaustive: bool = False


def canon(case) -> str:
    return json.dumps(case, sort_keys=True, separators=(",", ":"), default=_default)


def _default(o):
    import numpy as np
    if isinstance(o, (np.floating,)):
        return float(o)
    if isinstance(o, (np.integer,)):
        return int(o)
    if isinstance(o, np.ndarray):
        return o.tolist()
    if isinstance(o, (set, frozenset)):
        return sorted(o)
    raise TypeError(type(o))


def fingerprint(case) -> str:
    return hashlib.sha1(canon(case).encode()).hexdigest()[:14]


def derive_seed(base: int, *parts) -> int:
    h = hashlib.sha256(("/".join([str(base)] + [str(p) for p in parts])).encode()).digest()
    return int.from_bytes(h[:8], "big")


def lib_frame(exc: BaseException) -> str:
    """innermost frame of the exception's traceback that lies in pygamma_agreement"""
    where = "?"
    for fs in traceback.extract_tb(exc.__traceback__):
        if "pygamma_agreement" in fs.filename:
            where = f"{os.path.basename(fs.filename)}:{fs.name}"
    return where


def lib_call(label: str, fn, *args, allowed=(), **kwargs):
    """Call into the library where the property says the call must return.  Exceptions listed in
    `allowed` propagate untouched (the caller handles documented rejections)."""
    try:
        return fn(*args, **kwargs)
    except allowed:
        raise
    except Violation:
        raise
    except HarnessError:
        raise
    except Exception as e:  # noqa
        raise Violation(f"{label}:raises:{type(e).__name__}@{lib_frame(e)}", repr(e)[:300])


# ----------------------------------------------------------------------------- known findings

def load_known(prop_id: str):
    """returns {sig: text} of open findings for this property"""
    out = {}
    if not os.path.exists(KNOWN_FILE):
        return out
    for line in open(KNOWN_FILE, encoding="utf-8"):
        line = line.strip()
        if not line.startswith("open:"):
            continue
        fields = dict(tok.split("=", 1) for tok in line.split()[1:3] if "=" in tok)
        if fields.get("property") == prop_id and "sig" in fields:
            out[fields["sig"]] = line.split(None, 3)[3] if len(line.split(None, 3)) > 3 else ""
    return out


# ----------------------------------------------------------------------------- per-task stats

class Stats:
    def __init__(self, sub: Sub, tier: str, known: Dict[str, str]):
        self.sub = sub
        self.tier = tier
        self.known = known
        self.evaluations = 0
        self.nontrivial = set()
        self.classes = collections.Counter()
        self.samples = []
        self.known_hits = collections.Counter()
        self.known_examples = {}
        self.excluded_sigs = set()      # root causes already reported in this task
        self.excluded_hits = collections.Counter()
        self.budget_hit = False
        self.skipped = 0
        self.t0 = time.time()
        self.last_violation = None

    def over_budget(self):
        if time.time() - self.t0 > self.sub.budget_s[self.tier]:
            self.budget_hit = True
            return True
        return False

    def execute(self, case):
        """run the predicate on one case; raise Violation only for a new, unlisted violation"""
        if self.over_budget():
            self.skipped += 1
            return
        self.evaluations += 1
        _inflight(case, self.sub.name)
        try:
            info = self.sub.check(case) or {}
        except Violation as v:
            if v.sig in self.known:
                self.known_hits[v.sig] += 1
                self.known_examples.setdefault(v.sig, case)
                return
            if v.sig in self.excluded_sigs:
                self.excluded_hits[v.sig] += 1
                return
            self.last_violation = {"sig": v.sig, "msg": v.msg, "case": case}
            raise
        for c in info.get("classes", ()):
            self.classes[c] += 1
        if info.get("nontrivial"):
            fp = fingerprint(case)
            if fp not in self.nontrivial:
                self.nontrivial.add(fp)
                if len(self.samples) < 3:
                    self.samples.append(_trim(case))
        elif not self.samples and self.evaluations == 1:
            pass

    def result(self, shard, violations, harness_error=None):
        return {
            "sub": self.sub.name, "shard": shard, "evaluations": self.evaluations,
            "nontrivial": sorted(self.nontrivial), "classes": dict(self.classes),
            "samples": self.samples, "known_hits": dict(self.known_hits),
            "known_examples": {k: _trim(v) for k, v in self.known_examples.items()},
            "excluded_hits": dict(self.excluded_hits),
            "budget_hit": self.budget_hit, "skipped": self.skipped,
            "violations": violations, "harness_error": harness_error,
            "wall": time.time() - self.t0,
        }


_INFLIGHT_DIR = None


def _inflight(case, sub_name):
    """heartbeat: the case a worker is executing, so that a run stopped by the wall-clock guard can say where it hung"""
    if _INFLIGHT_DIR:
        try:
            with open(os.path.join(_INFLIGHT_DIR, f"{os.getpid()}.json"), "w") as f:
                f.write(json.dumps({"sub": sub_name, "t": time.time(), "case": json.loads(canon(case))})[:20000])
        except Exception:
            pass


def _trim(case, limit=6000):
    s = canon(case)
    if len(s) <= limit:
        return json.loads(s)
    return {"truncated_case_json": s[:limit]}


# ----------------------------------------------------------------------------- machines

_CURRENT = {}


def make_machine_base():
    from hypothesis.stateful import RuleBasedStateMachine

    class OpLogMachine(RuleBasedStateMachine):
        """Rules build a JSON-able op, call self.do(op); the interpreter applies it to the real
        object(s) and to the model and checks the invariants; the op log is the case."""
        make_interp: Callable = None

        def __init__(self):
            super().__init__()
            self.log = []
            self.interp = type(self).make_interp()
            self.failed = False
            _CURRENT["log"] = self.log
            _CURRENT["stats"].machine_begin()

        def do(self, op):
            if _CURRENT["stats"].over_budget():      # bounded by a budget like every other sub-check: the rest is skipped (inconclusive tail)
                _CURRENT["stats"].skipped += 1
                return None
            self.log.append(op)
            try:
                return self.interp.apply(op)
            except Violation as v:
                self.failed = True
                _CURRENT["last_machine_violation"] = {"sig": v.sig, "msg": v.msg, "case": {"ops": list(self.log)}}
                raise

        def teardown(self):
            _CURRENT["stats"].machine_end(self)

    return OpLogMachine


class MachineStats(Stats):
    def machine_begin(self):
        pass

    def machine_end(self, m):
        if m.failed:
            return
        self.evaluations += 1
        info = m.interp.info()
        for c in info.get("classes", ()):
            self.classes[c] += 1
        if info.get("nontrivial"):
            case = {"ops": list(m.log)}
            fp = fingerprint(case)
            if fp not in self.nontrivial:
                self.nontrivial.add(fp)
                if len(self.samples) < 2:
                    self.samples.append(_trim(case))


# ----------------------------------------------------------------------------- task execution

def _hyp_settings(n, tier, steps=None):
    from hypothesis import settings, HealthCheck, Phase
    kw = dict(max_examples=n, database=None, deadline=None, report_multiple_bugs=False,
              suppress_health_check=[HealthCheck.too_slow, HealthCheck.data_too_large,
                                     HealthCheck.filter_too_much, HealthCheck.large_base_example],
              print_blob=False,
              phases=[Phase.generate, Phase.target, Phase.shrink])
    if steps is not None:
        kw["stateful_step_count"] = steps
    return settings(**kw)


def run_task(prop, sub: Sub, tier: str, base_seed: int, shard: int, nshards: int):
    import hypothesis
    from hypothesis import given, seed
    known = load_known(prop.ID)
    violations = []
    if sub.kind == "machine":
        stats = MachineStats(sub, tier, known)
    else:
        stats = Stats(sub, tier, known)
    n = sub.examples[tier]
    try:
        if sub.kind == "enum":
            for idx, case in enumerate(sub.cases()):
                if idx % nshards != shard:
                    continue
                try:
                    stats.execute(case)
                except Violation as v:
                    violations.append(stats.last_violation)
                    stats.excluded_sigs.add(v.sig)
                    if len(violations) >= MAX_ROOT_CAUSES:
                        break
        else:
            for attempt in range(MAX_ROOT_CAUSES):
                s = derive_seed(base_seed, prop.ID, sub.name, shard, attempt)
                stats.last_violation = None
                try:
                    if sub.kind == "given":
                        @seed(s)
                        @_hyp_settings(n, tier)
                        @given(sub.strategy)
                        def test(case):
                            stats.execute(case)
                        test()
                    else:
                        from hypothesis.stateful import run_state_machine_as_test
                        _CURRENT["stats"] = stats
                        _CURRENT["last_machine_violation"] = None
                        cls = sub.machine
                        run_state_machine_as_test(seed(s)(cls), settings=_hyp_settings(n, tier, sub.steps))
                    break
                except Violation as v:
                    if v.sig in stats.known:   # raised from a machine: interp does not filter
                        stats.known_hits[v.sig] += 1
                        stats.known_examples.setdefault(v.sig, {"ops": list(_CURRENT.get("log", []))})
                        # cannot continue a machine past a known finding; stop this shard's search
                        break
                    if sub.kind == "machine":
                        case = {"ops": list(_CURRENT.get("log", []))}
                        violations.append({"sig": v.sig, "msg": v.msg, "case": case})
                        break  # machines do not support exclusion by signature
                    violations.append(stats.last_violation or {"sig": v.sig, "msg": v.msg, "case": None})
                    stats.excluded_sigs.add(v.sig)
                    n = max(20, n // 2)
                except Exception as e:
                    # Hypothesis reports a predicate that fails only some of the times it is run on the same
                    # case as Flaky*: the case and the violation it last produced are still a real observation
                    flaky = type(e).__name__ in ("FlakyFailure", "Flaky", "FlakyReplay", "FlakyStrategyDefinition")
                    if flaky and sub.kind == "machine" and _CURRENT.get("last_machine_violation"):
                        # a history that violated the property once and not when Hypothesis re-ran it (state leaking between the
                        # objects of successive runs): the first observation stands; known findings stay quiet
                        v = dict(_CURRENT["last_machine_violation"])
                        if v["sig"] in stats.known:
                            stats.known_hits[v["sig"]] += 1
                            stats.known_examples.setdefault(v["sig"], v["case"])
                        else:
                            v["msg"] = "(not reproducible on every run of the same history) " + v["msg"]
                            violations.append(v)
                        break
                    if flaky and stats.last_violation:
                        v = dict(stats.last_violation)
                        v["msg"] = "(not reproducible on every run of the same case) " + v["msg"]
                        violations.append(v)
                        stats.excluded_sigs.add(v["sig"])
                        n = max(20, n // 2)
                    else:
                        raise
        return stats.result(shard, violations)
    except BaseException as e:  # harness error
        tb = traceback.format_exc()
        return stats.result(shard, violations, harness_error=f"{type(e).__name__}: {e}\n{tb[-3000:]}")


def _task_entry(args):
    prop_name, sub_name, tier, base_seed, shard, nshards = args
    prop = _PROP
    subs = {s.name: s for s in _SUBS}
    os.environ["PYTHONHASHSEED"] = os.environ.get("PYTHONHASHSEED", "0")
    if multiprocessing.current_process().name != "MainProcess" and not getattr(prop, "KEEP_CPU_COUNT", False):
        # the library sizes its thread pools with os.cpu_count(); 16 shard processes x 16 threads only thrash
        # (schedule independence is C06's subject, which opts out of this substitution)
        os.cpu_count = lambda: 2
    if multiprocessing.current_process().name != "MainProcess":
        # native solvers (GLPK) print to the C-level stdout; workers report through the pool only
        try:
            dn = os.open(os.devnull, os.O_WRONLY)
            os.dup2(dn, 1)
            os.dup2(dn, 2)
        except OSError:
            pass
    if os.environ.get("VERIF_DEBUG_HANG"):
        import faulthandler
        faulthandler.dump_traceback_later(float(os.environ["VERIF_DEBUG_HANG"]), repeat=False,
                                          file=open(f"/tmp/hang_{prop_name}_{sub_name}_{shard}.txt", "w"))
    return run_task(prop, subs[sub_name], tier, base_seed, shard, nshards)


_PROP = None
_SUBS = None


# ----------------------------------------------------------------------------- main

def write_evidence(prop, tier, seed_value, results, wall, nviol, extra=None):
    os.makedirs(EVIDENCE_DIR, exist_ok=True)
    per_sub = {}
    nontrivial_all = set()
    samples = []
    evaluations = 0
    classes_all = collections.Counter()
    known = collections.Counter()
    for r in results:
        if r["sub"] == "wall-clock-guard":
            continue
        d = per_sub.setdefault(r["sub"], {"evaluations": 0, "nontrivial": set(), "classes": collections.Counter(),
                                          "budget_hit": False, "skipped": 0, "shards": 0})
        d["evaluations"] += r["evaluations"]
        d["nontrivial"].update(r["nontrivial"])
        d["classes"].update(r["classes"])
        d["budget_hit"] = d["budget_hit"] or r["budget_hit"]
        d["skipped"] += r["skipped"]
        d["shards"] += 1
        evaluations += r["evaluations"]
        nontrivial_all.update(f"{r['sub']}:{fp}" for fp in r["nontrivial"])
        for s in r["samples"]:
            if sum(1 for x in samples if x["subcheck"] == r["sub"]) < 2:
                samples.append({"subcheck": r["sub"], "case": s})
        for k, v in r["known_hits"].items():
            known[k] += v
        for k, v in r["classes"].items():
            classes_all[f"{r['sub']}/{k}"] += v
    subs_by_name = {s.name: s for s in _SUBS}
    sub_report = {}
    for name, d in per_sub.items():
        sub_report[name] = {
            "kind": subs_by_name[name].kind,
            "evaluations": d["evaluations"], "distinct_nontrivial": len(d["nontrivial"]),
            "class_histogram": dict(sorted(d["classes"].items())),
            "exhaustive": bool(subs_by_name[name].exhaustive and not d["budget_hit"]),
            "budget_hit_inconclusive_tail": d["budget_hit"], "skipped_after_budget": d["skipped"],
            "shards": d["shards"],
        }
    cov = {
        "evaluations": evaluations,
        "distinct_nontrivial": len(nontrivial_all),
        "rule": prop.RULE,
        "samples": samples,
        "subchecks": sub_report,
        "known_findings_excluded": dict(known),
    }
    if all(v["exhaustive"] for v in sub_report.values()) and sub_report:
        cov["exhaustive"] = True
    if extra:
        cov.update(extra)
    ev = {
        "property_id": prop.ID, "tier": tier, "seed": int(seed_value), "level": "exploration",
        "coverage": cov, "assumptions": list(prop.ASSUMPTIONS), "wall_s": round(wall, 2),
        "violations": int(nviol),
    }
    path = os.path.join(EVIDENCE_DIR, f"{prop.ID}.json")
    tmp = path + ".tmp"
    with open(tmp, "w", encoding="utf-8") as f:
        json.dump(ev, f, indent=1, default=_default, ensure_ascii=False)
        f.write("\n")
    os.replace(tmp, path)
    return path


def write_replay(prop_id, sub_name, v):
    os.makedirs(REPLAY_DIR, exist_ok=True)
    body = {"property": prop_id, "sub": sub_name, "sig": v["sig"], "msg": v["msg"], "case": v["case"]}
    h = hashlib.sha1(canon(body["case"]).encode()).hexdigest()[:10]
    path = os.path.join(REPLAY_DIR, f"{prop_id}-{sub_name}-{h}.json")
    with open(path, "w", encoding="utf-8") as f:
        json.dump(body, f, indent=1, default=_default, ensure_ascii=False)
        f.write("\n")
    return path


def main(prop, argv=None):
    """entry point used by pbt/run.py"""
    global _PROP, _SUBS
    ap = argparse.ArgumentParser()
    ap.add_argument("--tier", default=os.environ.get("VERIF_TIER", "quick"), choices=["quick", "thorough"])
    ap.add_argument("--replay", default=None)
    ap.add_argument("--only", default=None, help="comma separated sub-check names (debugging)")
    ap.add_argument("--scale", type=float, default=1.0, help="multiply example counts (debugging)")
    ap.add_argument("--procs", type=int, default=int(os.environ.get("VERIF_PROCS", "16")))
    args = ap.parse_args(argv)
    seed_value = int(os.environ.get("VERIF_SEED", "1") or "1")
    t0 = time.time()
    try:
        env.import_library()
        if hasattr(prop, "setup"):
            prop.setup()
        subs = prop.subchecks(args.tier)
    except Exception:
        traceback.print_exc()
        print(f"HARNESS-ERROR property={prop.ID} (setup)")
        return 2
    if args.only:
        keep = set(args.only.split(","))
        subs = [s for s in subs if s.name in keep]
    if args.scale != 1.0:
        for s in subs:
            s.examples = {k: max(1, int(v * args.scale)) for k, v in s.examples.items()}
    _PROP, _SUBS = prop, subs
    known = load_known(prop.ID)

    if args.replay:
        body = json.load(open(args.replay, encoding="utf-8"))
        sub = {s.name: s for s in subs}.get(body["sub"])
        if sub is None:
            print(f"HARNESS-ERROR unknown sub-check {body['sub']}")
            return 2
        try:
            sub.check(body["case"])
        except Violation as v:
            if v.sig in known:
                print(f"KNOWN-FINDING: property={prop.ID} sig={v.sig} {known[v.sig]}")
                return 0
            print(f"replayed: {v}")
            print(f"VIOLATION property={prop.ID} replay={args.replay}")
            return 1
        except Exception:
            traceback.print_exc()
            print(f"HARNESS-ERROR property={prop.ID} (replay)")
            return 2
        print(f"replay passes: property={prop.ID} sub={body['sub']}")
        return 0

    tasks = []
    for s in subs:
        ns = s.shards[args.tier]
        for i in range(ns):
            tasks.append((prop.ID, s.name, args.tier, seed_value, i, ns))
    # interleave sub-checks so that long ones start early
    tasks.sort(key=lambda t: (t[4], t[1]))
    global _INFLIGHT_DIR
    _INFLIGHT_DIR = tempfile.mkdtemp(prefix=f"pbt_{prop.ID}_")
    import atexit
    import shutil
    atexit.register(shutil.rmtree, _INFLIGHT_DIR, True)
    ctx = multiprocessing.get_context("fork")
    nproc = max(1, min(args.procs, len(tasks)))
    results = []
    crashed = []
    if nproc == 1:
        results = [_task_entry(t) for t in tasks]
    else:
        # One forked process per (sub-check, shard) task, at most nproc at a time.  The parent watches exit codes: a
        # worker killed by a signal (segfault / abort inside native code of the library) is a finding - the case it was
        # executing is known from its heartbeat file - and not a lost task.  A global wall-clock guard only ever turns
        # a hung run into exit 2 (inconclusive), never into a VIOLATION.
        limit = float(os.environ.get("VERIF_WALL_LIMIT", "1500" if args.tier == "quick" else "14400"))
        pending = list(tasks)
        running = {}     # pid -> (process, task, result path)

        def child(task, path):
            r = _task_entry(task)
            with open(path, "w") as f:
                json.dump(r, f, default=_default)
            os._exit(0)

        guard_hit = False
        while pending or running:
            while pending and len(running) < nproc:
                task = pending.pop(0)
                path = os.path.join(_INFLIGHT_DIR, f"result_{len(results) + len(running) + len(pending)}_{task[1]}_{task[4]}.json")
                pr = ctx.Process(target=child, args=(task, path), daemon=True)
                pr.start()
                running[pr.pid] = (pr, task, path)
            time.sleep(0.05)
            for pid in list(running):
                pr, task, path = running[pid]
                if pr.is_alive():
                    continue
                pr.join()
                del running[pid]
                if os.path.exists(path):
                    results.append(json.load(open(path)))
                    continue
                # died without a result
                hb = os.path.join(_INFLIGHT_DIR, f"{pid}.json")
                case = None
                if os.path.exists(hb):
                    try:
                        case = json.load(open(hb))["case"]
                    except Exception:
                        case = None
                crashed.append({"sub": task[1], "shard": task[4], "exitcode": pr.exitcode, "case": case})
            if time.time() - t0 > limit:
                guard_hit = True
                break
        if guard_hit:
            now = time.time()
            os.makedirs(REPLAY_DIR, exist_ok=True)
            for pid, (pr, task, path) in running.items():
                hb = os.path.join(_INFLIGHT_DIR, f"{pid}.json")
                try:
                    body = json.load(open(hb))
                except Exception:
                    body = None
                pr.kill()
                if body and now - body["t"] > 60:
                    hp = os.path.join(REPLAY_DIR, f"{prop.ID}-{body['sub']}-inflight-{pid}.json")
                    json.dump({"property": prop.ID, "sub": body["sub"], "sig": "in-flight-when-guard-hit", "msg": "", "case": body["case"]},
                              open(hp, "w"), indent=1)
                    print(f"  a worker had been executing one case of sub={body['sub']} for {now - body['t']:.0f}s: {hp}")
            print(f"HARNESS-ERROR property={prop.ID} wall-clock guard of {limit:.0f}s hit with {len(running) + len(pending)} "
                  f"shard(s) unfinished: inconclusive for those (a hang inside the library or the harness)")
            # violations already found by the shards that finished are still reported below (exit 1); otherwise exit 2
            results.append({"sub": "wall-clock-guard", "shard": -1, "evaluations": 0, "nontrivial": [], "classes": {}, "samples": [],
                            "known_hits": {}, "known_examples": {}, "excluded_hits": {}, "budget_hit": True, "skipped": 0,
                            "violations": [], "harness_error": "wall-clock guard hit", "wall": 0.0})
    wall = time.time() - t0

    harness = [r for r in results if r["harness_error"]]
    viols = []
    seen = set()
    for r in results:
        for v in r["violations"]:
            key = (r["sub"], v["sig"])
            if key in seen:
                continue
            seen.add(key)
            viols.append((r["sub"], v))
    # prefer the smallest case per signature
    best = {}
    for r in results:
        for v in r["violations"]:
            key = (r["sub"], v["sig"])
            size = len(canon(v["case"]))
            if key not in best or size < best[key][0]:
                best[key] = (size, v)
    viols = [(k[0], v) for k, (_, v) in sorted(best.items())]

    for cr in crashed:
        if cr["case"] is None:
            harness.append({"sub": cr["sub"], "shard": cr["shard"], "harness_error": f"worker exited with code {cr['exitcode']} before executing a case"})
            continue
        viols.append((cr["sub"], {"sig": f"process-killed:exitcode={cr['exitcode']}",
                                  "msg": "the worker process died (signal / abort inside native code) while executing this case", "case": cr["case"]}))
    try:
        path = write_evidence(prop, args.tier, seed_value, results, wall, len(viols),
                              extra={"harness_errors": len(harness)} if harness else None)
    except Exception:
        traceback.print_exc()
        print(f"HARNESS-ERROR property={prop.ID} (evidence)")
        return 2

    total = sum(r["evaluations"] for r in results)
    nt = len({f"{r['sub']}:{fp}" for r in results for fp in r["nontrivial"]})
    print(f"property={prop.ID} tier={args.tier} seed={seed_value} evaluations={total} "
          f"distinct_nontrivial={nt} wall={wall:.1f}s evidence={path}")
    for name in sorted({r['sub'] for r in results}):
        ev = sum(r["evaluations"] for r in results if r["sub"] == name)
        n2 = len({fp for r in results if r["sub"] == name for fp in r["nontrivial"]})
        bh = any(r["budget_hit"] for r in results if r["sub"] == name)
        print(f"  sub={name} evaluations={ev} nontrivial={n2}{' BUDGET-HIT(inconclusive tail)' if bh else ''}")
    known_seen = collections.Counter()
    for r in results:
        for k, c in r["known_hits"].items():
            known_seen[k] += c
    for sig, text in known.items():
        print(f"KNOWN-FINDING: property={prop.ID} sig={sig} {text} (observed {known_seen.get(sig, 0)} times in this run)")
    if harness:
        for r in harness[:3]:
            print(f"HARNESS-ERROR property={prop.ID} sub={r['sub']} shard={r['shard']}:\n{r['harness_error']}")
        if not viols:
            return 2
    if viols:
        for sub_name, v in viols:
            p = write_replay(prop.ID, sub_name, v)
            print(f"  violation sub={sub_name} sig={v['sig']} {v['msg'][:400]}")
            print(f"VIOLATION property={prop.ID} replay={p}")
        return 1
    return 0
