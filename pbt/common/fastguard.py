"""Termination oracle for get_fast_alignment without a clock (DESIGN.md C10).

The loop `while copy: window = copy.get_first_window(...); ...; copy.remove(...)` is a deterministic
function of the working copy.  If two successive iterations see the same number of remaining units,
the state repeats for ever: that is a proof of non-termination, reported by raising Stall.
Only public methods are wrapped, test-side."""
import contextlib
import threading

from .env import import_library

_tl = threading.local()


class Stall(Exception):
    pass


@contextlib.contextmanager
def guard():
    pa = import_library()
    C = pa.Continuum
    orig_window = C.get_first_window
    orig_fast = C.get_fast_alignment

    def get_first_window(self, dissimilarity, w=1):
        track = getattr(_tl, "track", None)
        if track is not None:
            n = self.num_units
            track["iterations"] += 1
            if track["last"] is not None and n >= track["last"]:
                raise Stall(f"window iteration {track['iterations']} removed nothing: {n} units remain")
            track["last"] = n
        return orig_window(self, dissimilarity, w)

    def get_fast_alignment(self, dissimilarity, window_size):
        prev = getattr(_tl, "track", None)
        _tl.track = {"last": None, "iterations": 0}
        try:
            res = orig_fast(self, dissimilarity, window_size)
            _tl.last_iterations = _tl.track["iterations"]
            return res
        finally:
            _tl.track = prev

    C.get_first_window = get_first_window
    C.get_fast_alignment = get_fast_alignment
    try:
        yield _tl
    finally:
        C.get_first_window = orig_window
        C.get_fast_alignment = orig_fast


def last_iterations():
    return getattr(_tl, "last_iterations", 0)
