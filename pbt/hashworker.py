"""Sub-process used by C06: evaluates gamma cases under the PYTHONHASHSEED of its environment.
usage: PYTHONHASHSEED=h /venv/bin/python -m pbt.hashworker cases.json  -> JSON list of results on stdout"""
import json
import os
import sys

for _v in ("OMP_NUM_THREADS", "OPENBLAS_NUM_THREADS", "MKL_NUM_THREADS"):
    os.environ.setdefault(_v, "1")


def main():
    from pbt.common import env
    env.import_library()
    from pbt.props import c06
    cases = json.load(open(sys.argv[1]))
    devnull = os.open(os.devnull, os.O_WRONLY)
    real_out = os.dup(1)
    os.dup2(devnull, 1)          # GLPK / CBC chatter must not pollute the result stream
    out = [c06.run_gamma(c) for c in cases]
    os.dup2(real_out, 1)
    sys.stdout = os.fdopen(1, "w", closefd=False)
    print("RESULT " + json.dumps({"hashseed": os.environ.get("PYTHONHASHSEED"), "results": out}))
    sys.stdout.flush()


if __name__ == "__main__":
    main()
