#!/venv/bin/python
"""Single entry point:  /venv/bin/python pbt/run.py <ID> --tier quick|thorough [--replay FILE]"""
import importlib
import os
import sys

HERE = os.path.dirname(os.path.abspath(__file__))
sys.path.insert(0, os.path.dirname(HERE))
os.environ.setdefault("PYTHONHASHSEED", "0")
# one BLAS/OpenMP thread per worker process: the runner parallelises over processes
for _v in ("OMP_NUM_THREADS", "OPENBLAS_NUM_THREADS", "MKL_NUM_THREADS", "NUMEXPR_NUM_THREADS", "VECLIB_MAXIMUM_THREADS"):
    os.environ.setdefault(_v, "1")


def main():
    if len(sys.argv) < 2:
        print(__doc__)
        return 2
    pid = sys.argv[1].upper()
    from pbt.common import core
    try:
        prop = importlib.import_module(f"pbt.props.{pid.lower()}")
    except Exception:
        import traceback
        traceback.print_exc()
        print(f"HARNESS-ERROR property={pid} (import)")
        return 2
    try:
        return core.main(prop, sys.argv[2:])
    finally:
        if core._INFLIGHT_DIR:
            import shutil
            shutil.rmtree(core._INFLIGHT_DIR, ignore_errors=True)


if __name__ == "__main__":
    sys.stdout.reconfigure(line_buffering=True)
    rc = main()
    sys.stdout.flush()
    os._exit(rc) if rc is not None else os._exit(0)
